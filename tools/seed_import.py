#!/venv/bin/python
"""Import and validate seeded changes produced by a sub-agent in its scratch worktree.
usage: tools/seed_import.py <worktree> <PROP> [k ...]
For each k: copies <worktree>/_seed/{patchK.diff,demoK.py,notesK.md} to /verif/seeded/<PROP>-<k>/ and confirms, on scratch
copies of /repo (outside /repo and /verif): the patch applies; the demo passes without and fails with the change; the
repository's baseline tests still pass with the change; then runs the property's quick check against the changed copy.
Writes meta.json with everything that was run."""
import json
import os
import shutil
import subprocess
import sys
import tempfile
import xml.etree.ElementTree as ET

V = os.path.dirname(os.path.dirname(os.path.abspath(__file__)))


def run_demo(demo, root):
    try:
        d = subprocess.run(["/venv/bin/python", demo], cwd=root, env=dict(os.environ, PYTHONPATH=root), capture_output=True, text=True, timeout=900)
        return d.returncode, (d.stdout + d.stderr)[-600:]
    except subprocess.TimeoutExpired:
        return "timeout", ""


def run_tests(root):
    b = json.load(open("/root/.vp/BASELINE.json"))
    x = tempfile.mktemp(suffix=".xml")
    subprocess.run(["/venv/bin/python", "-m", "pytest", "-q", "-p", "no:cacheprovider", "--timeout=900", "--continue-on-collection-errors", "--junitxml=" + x, "toasty"],
                   cwd=root, env=dict(os.environ, PYTHONPATH=root), capture_output=True, text=True)
    ok = set()
    try:
        for tc in ET.parse(x).getroot().iter("testcase"):
            if not any(c.tag in ("failure", "error", "skipped") for c in tc):
                ok.add(tc.get("classname") + "::" + tc.get("name"))
        os.unlink(x)
    except Exception:
        pass
    return [t for t in b["stable_pass"] if t not in ok]


def scratch(base, name, patch=None):
    root = os.path.join(base, name)
    os.makedirs(root)
    shutil.copytree("/repo/toasty", os.path.join(root, "toasty"), ignore=shutil.ignore_patterns("__pycache__"))
    if patch:
        r = subprocess.run(["patch", "-p1", "-s", "-d", root, "-i", patch], capture_output=True, text=True)
        if r.returncode != 0:
            return None
    return root


def main():
    wt, prop = sys.argv[1], sys.argv[2]
    ks = sys.argv[3:] or ["1", "2"]
    skip_tests = "--no-tests" in ks
    srcdir = "_seed"
    suffix = ""
    for a in ks:
        if a.startswith("--src="):
            srcdir = a[6:]
        if a.startswith("--suffix="):
            suffix = a[9:]
    ks = [k for k in ks if not k.startswith("--")] or ["1", "2"]
    for k in ks:
        sd = os.path.join(V, "seeded", "%s-%s%s" % (prop, suffix, k))
        os.makedirs(sd, exist_ok=True)
        for a, b in (("patch%s.diff" % k, "patch.diff"), ("demo%s.py" % k, "demo.py"), ("notes%s.md" % k, "notes.md")):
            src = os.path.join(wt, srcdir, a)
            if os.path.exists(src) and not ("--keep" in sys.argv and os.path.exists(os.path.join(sd, b))):
                shutil.copy(src, os.path.join(sd, b))
        base = tempfile.mkdtemp(prefix="seedimp-")
        meta = dict(property=prop, source="independent sub-agent given only the property text and a scratch worktree", files=[])
        try:
            patch = os.path.join(sd, "patch.diff")
            meta["files"] = sorted({l[6:].strip() for l in open(patch) if l.startswith("+++ b/")})
            clean = scratch(base, "clean")
            changed = scratch(base, "changed", patch)
            meta["patch_applies"] = changed is not None
            if changed is None:
                meta["status"] = "rejected: patch does not apply to /repo HEAD"
            else:
                rc0, out0 = run_demo(os.path.join(sd, "demo.py"), clean)
                rc1, out1 = run_demo(os.path.join(sd, "demo.py"), changed)
                meta["demo_without_change"] = dict(rc=rc0, tail=out0[-300:])
                meta["demo_with_change"] = dict(rc=rc1, tail=out1[-300:])
                if not skip_tests:
                    meta["baseline_tests_not_passing_with_change"] = run_tests(changed)
                env = dict(os.environ, VERIF_REPO=changed, VERIF_EVIDENCE_DIR=os.path.join(base, "ev"), VERIF_REPLAY_DIR=os.path.join(base, "rp"))
                r = subprocess.run([os.path.join(V, "vcheck"), prop, "--tier", "quick"], cwd=V, env=env, capture_output=True, text=True)
                meta["check_quick"] = dict(rc=r.returncode, caught=r.returncode == 1,
                                           keys=[l.strip()[:400] for l in r.stdout.splitlines() if l.strip().startswith("violation key=")][:3],
                                           summary=[l for l in r.stdout.splitlines() if l.startswith(prop + ":")][-1:])
                ok = rc0 == 0 and rc1 not in (0, "timeout") and not meta.get("baseline_tests_not_passing_with_change")
                meta["status"] = "confirmed" if ok else "not confirmed"
            meta["ran"] = ["patch -p1 on a scratch copy of /repo/toasty", "demo.py on the clean and on the changed copy (PYTHONPATH=<copy>)",
                           "pytest toasty on the changed copy vs BASELINE stable_pass", "./vcheck %s --tier quick with VERIF_REPO=<changed copy>" % prop]
        finally:
            shutil.rmtree(base, ignore_errors=True)
        json.dump(meta, open(os.path.join(sd, "meta.json"), "w"), indent=1)
        print(prop, k, meta.get("status"), "demo", meta.get("demo_without_change", {}).get("rc"), meta.get("demo_with_change", {}).get("rc"),
              "tests_missing", meta.get("baseline_tests_not_passing_with_change"), "caught", meta.get("check_quick", {}).get("caught"), meta.get("check_quick", {}).get("keys", [])[:1])


if __name__ == "__main__":
    main()
