#!/bin/bash
# usage: tools/sweep.sh <tier> <seeds...>
tier=$1; shift
for s in "$@"; do echo "#### seed $s"; VERIF_SEED=$s tools/run_all.sh $tier | grep -v "^   "; done
