#!/venv/bin/python
"""Evaluate seeded changes: tools/seedtest.py [--tier quick] [--inplace] <seed dir> [prop ...]
<seed dir> holds patch.diff, demo.py, meta.json (property). By default the patch is applied to a scratch copy of the
package (outside /repo and /verif) and the checks run with VERIF_REPO; with --inplace it is applied to /repo itself
(git apply) and undone straight afterwards (git checkout -- .) - only when no background run is using /repo."""
import json
import os
import shutil
import subprocess
import sys
import tempfile

V = os.path.dirname(os.path.dirname(os.path.abspath(__file__)))


def main():
    args = sys.argv[1:]
    tier = "quick"
    inplace = False
    if "--tier" in args:
        i = args.index("--tier")
        tier = args[i + 1]
        del args[i:i + 2]
    if "--inplace" in args:
        inplace = True
        args.remove("--inplace")
    sd = os.path.abspath(args[0])
    meta = json.load(open(os.path.join(sd, "meta.json"))) if os.path.exists(os.path.join(sd, "meta.json")) else {}
    props = args[1:] or [meta.get("property")]
    patch = os.path.join(sd, "patch.diff")
    base = tempfile.mkdtemp(prefix="seedtest-")
    try:
        if inplace:
            root = "/repo"
            subprocess.run(["git", "-C", "/repo", "apply", patch], check=True)
        else:
            root = os.path.join(base, "repo")
            os.makedirs(root)
            shutil.copytree("/repo/toasty", os.path.join(root, "toasty"), ignore=shutil.ignore_patterns("__pycache__"))
            subprocess.run(["patch", "-p1", "-s", "-d", root, "-i", patch], check=True)
        demo = os.path.join(sd, "demo.py")
        res = {}
        if os.path.exists(demo):
            d = subprocess.run(["/venv/bin/python", demo], cwd=root, env=dict(os.environ, PYTHONPATH=root), capture_output=True, text=True, timeout=600)
            res["demo_rc_with_change"] = d.returncode
        for p in props:
            env = dict(os.environ, VERIF_EVIDENCE_DIR=os.path.join(base, "ev"), VERIF_REPLAY_DIR=os.path.join(base, "rp"))
            if not inplace:
                env["VERIF_REPO"] = root
            r = subprocess.run([os.path.join(V, "vcheck"), p, "--tier", tier], cwd=V, env=env, capture_output=True, text=True)
            keys = [l.strip()[:300] for l in r.stdout.splitlines() if l.strip().startswith("violation key=")][:3]
            res[p] = dict(rc=r.returncode, caught=(r.returncode == 1), summary=[l for l in r.stdout.splitlines() if l.startswith(p + ":")][-1:], keys=keys,
                          other=[l[:300] for l in r.stdout.splitlines() if l.startswith(("INCONCLUSIVE", "KNOWN"))])
        print(json.dumps(res, indent=1))
    finally:
        if inplace:
            subprocess.run(["git", "-C", "/repo", "checkout", "--", "."], check=True)
        shutil.rmtree(base, ignore_errors=True)


if __name__ == "__main__":
    main()
