#!/usr/bin/env python3
"""Regenerate MANIFEST.json from the table below (checks are listed only when their module exists)."""
import json
import os

V = os.path.dirname(os.path.dirname(os.path.abspath(__file__)))

BASELINE = (
    "cd /repo && env -u TOASTY_VERIF /venv/bin/python -m pytest -ra -q -p no:cacheprovider --timeout=900 "
    "--continue-on-collection-errors"
)

# id: (level, technique, level text, level note, design section, engine)
T = {
    "C01": ("exploration", "offline checker over a multi-process event log (exactly-once + happens-before + stuck-state model) and marker-file invariant inside the walk callback, under instrumented multiprocessing with delay profiles (incl. producer stalls, heavy-tailed callbacks, pauses inside Event.is_set, one late worker), statement-boundary delay injection (sys.monitoring) and non-fork start methods",
            "Every walk (serial and parallel, 1-32 workers) on generated generic/TOAST/filtered/sub-pyramid inputs is recorded at the callback and queue boundary and checked against an independent live-parent model; schedules are diversified by a catalogue of delay profiles and time-dilated queue time-outs.",
            "Held on the executions observed only; schedules are sampled (profiles x seeds x OS noise), not enumerated. Trusts the O_APPEND event log ordering and the reference quadtree model.", "3/C01", "instr_mp+evlog"),
    "C02": ("exploration", "reference-model oracle (independent 2x2 block reduction of the stored children) over generated sparse pyramids in every mode/format, serial vs parallel comparison, boundary history from a logging PyramidIO, re-cascade histories and source-free I/O failpoints",
            "Generated leaf layers (sparse, NaN/transparent patterns, all modes and formats) are cascaded by the real code; every produced/absent parent is compared with an independent reference computed from the files on disk read with numpy/astropy/PIL.",
            "Held on generated inputs only. jpg compared at the write boundary (lossy). Integer rounding mode not demanded (|out-mean|<1).", "3/C02", "ref-oracles"),
    "C03": ("exploration", "offline exactly-once / conservation checker over the event log of each parallel stage (leaf visits, transforms, multi-TAN, multi-WCS) with slow-feeder, slow-worker, late-start, late-check, stall and burst delay profiles, statement-boundary delays, refused forks and killed workers, compared with the serial run",
            "Each parallel stage is run on generated item sets with 2-32 workers under instrumented multiprocessing; the log must show every item processed exactly once by exactly one worker, all workers exited before return, and the same set as serial mode.",
            "Held on observed schedules only. Trusts the event log ordering and the logging PyramidIO.", "3/C03", "instr_mp+evlog"),
    "C04": ("exploration", "independent reference model of the TOAST subdivision (unit-vector octahedron refinement) compared with every tile from all four construction routes and with the tiles Pyramid objects hand to leaf callbacks; exhaustive to a depth bound, sampled beyond",
            "All tiles to a depth bound in both coordinate systems via every construction route are compared with a from-the-documentation reference; nesting, shared edges, areas and layout anchors are asserted on the real outputs.",
            "Exhaustive only to the stated depth; deeper positions sampled. Tolerance 1e-12 on unit vectors.", "3/C04", "ref-oracles"),
    "C05": ("exploration", "reference-model oracle on toast_tile_get_coords: full 256x256 grids compared with an independent vectorised refinement and with toasty's own Python subdivision eight levels deeper; ASan/UBSan lane on the rebuilt extension as diagnostics",
            "The compiled subdivision is run on all shallow tiles and sampled deep tiles of both coordinate systems and compared pixel by pixel with two independent computations.",
            "Compiled extension as built (pyx/c coherence guard). Tolerance 1e-12.", "3/C05", "ref-oracles"),
    "C06": ("exploration", "reference oracle over files written by sample_layer/sample_layer_filtered/toast_base/tile-allsky with position-revealing samplers, all formats and byte orders, clobber/update modes, serial vs parallel, concurrent update jobs under statement-boundary delays on a dilated clock",
            "Real sampling runs are read back with numpy/astropy/PIL and compared exactly with the sampler evaluated at the tile's own pixel grid; tile sets are compared with the reference leaf set.",
            "Trusts toast_tile_get_coords (checked by C05). jpg compared at the write boundary.", "3/C06", "ref-oracles"),
    "C07": ("exploration", "oracle on filter decisions (a tile with a pixel centre inside the region, with margin, must be accepted along its whole ancestor path) under random and directed adversarial geometry generators; mutation guard on the inspected tile; filtered-vs-unfiltered sampling comparison; chunked sampling in several request orders with transient read failpoints; filters asked from concurrent threads",
            "Box, footprint and chunk filters are evaluated on real tiles with cached pixel grids; false negatives are searched with pin-point boxes and directed footprints aimed at the bounding-box refinement.",
            "astropy.wcs is the oracle for footprints. Compiled extension as built.", "3/C07", "ref-oracles"),
    "C08": ("exploration", "reference oracle on StudyTiling geometry (exhaustive per axis to a bound) and on tiles written by the real tiling entry points, read back through the WTML URL template; re-tiling histories, shared / pickled tiling objects, write failpoints",
            "Every width 1..2049 against boundary heights is checked for padded size, centring, disjoint covering rectangles and counts; images of boundary sizes in all modes/formats are tiled and reassembled exactly.",
            "Exhaustive per axis only; pixel read-backs on sampled sizes.", "3/C08", "ref-oracles"),
    "C09": ("exploration", "reference oracle: multi-TAN tiling of generated decompositions vs study tiling of the pasted mosaic, across orders, parities, grid rotations and worker counts, with instrumented multiprocessing, statement-boundary delays on a dilated lock clock and a killed worker",
            "Random mosaics are decomposed into overlapping/NaN-bordered FITS inputs, tiled by MultiTanProcessor (API and CLI) and compared tile by tile and field by field with the mosaic tiled as one image.",
            "Held on generated mosaics. Overlaps agree by construction.", "3/C09", "ref-oracles"),
    "C10": ("exploration", "history + executable model: every concurrent update logs the set of uniquely tagged contributions it observed; offline serial-chain checker (linearizability of read-modify-write) plus torn-read detection; statement-boundary delays, dilated and real long holds, the real multi-image stages with one late worker, updaters that differ in environment and in how they spell the pyramid path",
            "2-8 real processes update one tile through update_image with delays inside the critical section; the recorded observations must form one serial chain and the final tile must contain every contribution.",
            "Held on observed interleavings only.", "3/C10", "instr_mp+evlog"),
    "C11": ("exploration", "reference oracle with identity maps: the returned value names the cell read, compared with the documented layout in float64 with either-adjacent-cell tolerance at boundaries; coexisting samplers, map memory layouts, calls from concurrent threads, sparse disk-backed maps beyond 2^31 pixels",
            "All sampler variants on maps of many shapes incl. 1-pixel axes are driven with random, boundary, pole, periodic and real TOAST grid inputs.",
            "Ecliptic variant checked for layout-independent clauses only. Galactic oracle is astropy via SkyCoord.", "3/C11", "ref-oracles"),
    "C12": ("exploration", "reference oracle: containment by signed great-circle distance to the reference tile's edges, nesting, periodicity, nearest-pixel distance; uniform, polar and structure-point generators, tracks across tile edges, nanoradian pairs at depth 24, lookups from concurrent threads",
            "Point lookups in both coordinate systems at depths 0-12 are checked against the independent TOAST reference.",
            "Tolerance 1e-9 rad on shared edges.", "3/C12", "ref-oracles"),
    "C13": ("exploration", "reference quadtree model vs generate_pos/pos algebra and the three counters vs callbacks actually observed in leaf visits and walks (also in interpreters started with python -O and on re-depthed objects); exhaustive for small depths",
            "Position algebra and counts are compared with first-principles computations on all kinds of pyramids.",
            "Exhaustive over ancestor-closed filters to depth 2 (thorough).", "3/C13", "ref-oracles"),
    "C14": ("exploration", "reference oracle: DATAMIN/DATAMAX read with astropy from every tile vs min/max of the generator's leaf arrays beneath it; WTML DataMin/DataMax vs root",
            "FITS leaf layers written by each toasty writer are cascaded serially and in parallel and every header is checked.",
            "rel 1e-6 (single precision).", "3/C14", "ref-oracles"),
    "C15": ("exploration", "contract wrappers on fill/update_into_maskable_buffer, write_image and read_image (element-wise reference, snapshot before/after) under generated workloads and under the repository's own tests; persistence histories against a small file-state model",
            "Every mode x indexer kind x mask pattern is driven through the real buffer methods with an element-wise reference; tile write/read/update histories are checked against a model of the file state.",
            "Paired-index-array update is outside the statement (rectangles).", "3/C15", "contracts"),
    "C16": ("exploration", "reference oracle: astropy pix2world before vs after the flip for every pixel; idempotence of ensure_negative_parity; groups of live images, one WCS on several heights, foreign pixel_shape, non-default poles",
            "Random linear celestial WCS (CD and PC forms, rotation, skew, both parities) are flipped by the real code and compared on the sky.",
            "astropy.wcs is the oracle.", "3/C16", "ref-oracles"),
    "C17": ("exploration", "independent template expansion vs files on disk for every workflow emitting index_rel.wtml; call histories (incl. failed calls) on one output directory for tile_fits; every advertised format",
            "Each workflow is run for real and its WTML parsed with xml.etree; expanded URLs must equal the written tile set.",
            "HiPS and network sources not covered.", "3/C17", "ref-oracles"),
    "C18": ("fault_enumeration", "fault enumeration over the put_item history: every directory order x every fault point (before/during/after each transfer, before rename) as exception, transient error, real SIGINT and real crash, faults inside the real put_item, with a store-invariant oracle",
            "publish() is run with os.listdir wrapped to return every permutation and a fault injected at every point; the store invariant and the recovery run are checked after each.",
            "Local store only; crashes emulated by os._exit in a forked child.", "3/C18", "faultpoints"),
    "C19": ("fault_enumeration", "fault enumeration: an exception (incl. unpicklable), a signal death or an I/O failpoint injected at each item of each parallel stage; outcome classified by the event log (raised / returned / stuck-state model / watchdog); fresh interpreters with non-fork start methods",
            "Each stage x worker count x item gets one injected failure; only a visible failure to the caller satisfies the property.",
            "Stuck state decided by protocol state, not time.", "3/C19", "faultpoints"),
    "C20": ("exploration", "reference oracle with marker-valued multi-extension FITS files: shape, marker and CRPIX identify (file, HDU, WCS key) actually loaded; selection objects shared between collections and calls from concurrent threads",
            "Generated collections and selections are loaded through every entry point and each item is identified.",
            "Held on generated collections.", "3/C20", "ref-oracles"),
}


def main():
    checks = []
    na = []
    for cid in sorted(T):
        level, tech, text, note, ref, engine = T[cid]
        if os.path.exists(os.path.join(V, "checks", cid.lower() + ".py")):
            checks.append(dict(
                property_id=cid,
                quick_cmd="./vcheck %s --tier quick" % cid,
                thorough_cmd="./vcheck %s --tier thorough" % cid,
                evidence_file="evidence/%s.json" % cid,
                replay_cmd_template="./vcheck %s --replay {path}" % cid,
                engine=engine,
                level_claimed=dict(category=level, text=text, design_ref="DESIGN.md section " + ref),
                level_note=note,
                technique=tech,
            ))
        else:
            na.append(dict(property_id=cid, reason="check not built yet in this revision (planned; see DESIGN.md section %s)" % ref))
    engines = {}
    for c in checks:
        engines.setdefault(c["engine"], []).append(c["property_id"])
    kinds = {
        "instr_mp+evlog": ("vlib/instr_mp.py", "instrumented multiprocessing (patched Queue/Process/Event), O_APPEND event log, offline history checkers, stuck-state model"),
        "ref-oracles": ("vlib", "reference models + seeded/directed generators observing the real code's outputs"),
        "faultpoints": ("vlib", "fault injection at wrapped I/O points; fork-and-_exit crashes"),
        "contracts": ("vlib/contracts.py", "pre/post contract wrappers on real methods; pytest plugin"),
    }
    m = dict(
        version=1,
        setup_cmd="mkdir -p evidence replays && /venv/bin/python -c 'import toasty, numpy, astropy'",
        hooks=dict(
            guard="TOASTY_VERIF",
            enable="no source hooks: all observation points are reached from the harness (monkey-patching in the harness process, subclassing PyramidIO, callbacks)",
            baseline_off_cmd=BASELINE,
            source_commits=[],
            add_only=True,
        ),
        engines=[dict(name=k, path=kinds[k][0], serves_properties=v, kind_free_text=kinds[k][1]) for k, v in sorted(engines.items())],
        checks=checks,
        notes="All checks: ./vcheck <ID> --tier quick|thorough; honours VERIF_SEED; exit 0 held / 1 VIOLATION / 2 INCONCLUSIVE. Known findings in known_findings.json.",
        not_applicable=na,
    )
    with open(os.path.join(V, "MANIFEST.json"), "w") as f:
        json.dump(m, f, indent=1)
    print("checks:", [c["property_id"] for c in checks], "na:", len(na))


if __name__ == "__main__":
    main()
