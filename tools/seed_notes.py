#!/usr/bin/env python3
"""One-line mechanism / what-it-needs for every seeded change (from the sub-agents' reports), merged into meta.json;
also regenerates the table in DESIGN.md between the SEEDED-TABLE markers. `strengthened` names what had to be added to
the check before it caught the change ("-" = the check as it stood caught it)."""
import glob
import json
import os
import re

V = os.path.dirname(os.path.dirname(os.path.abspath(__file__)))

N = {
 # id: (mechanism, needs, strengthened)
 "C01-1": ("ready-queue seeding lost its `is_live` test: accepted-but-childless tiles at depth-1 get a callback in parallel walks", "parallel>=2, filter accepting a depth-1 tile but none of its children", "-"),
 "C01-2": ("generic sub-pyramid enumeration shifts y by the apex's x index", "generic pyramid, sub-pyramid apex off the diagonal", "-"),
 "C01-b1": ("readiness table became a class attribute shared by all walks of a process", "two parallel walks in one process: first with an accepted-but-childless tile T, second with T live two levels above the leaves, uneven subtrees", "sequences of walks inside one forked process ('seq' cases)"),
 "C01-b2": ("serial fast path for unfiltered pyramids iterates the raw generator: ancestors of a generic sub-pyramid apex get callbacks", "serial walk of new_generic(d).subpyramid(apex), apex.n>=1", "-"),
 "C02-1": ("mosaic buffer cleared only for incomplete quartets: undefined child pixels keep stale data of the previous merge", "complete quartet with undefined pixels, merged after another parent by the same process", "-"),
 "C02-2": ("integer/colour means computed in float32", "I32 tiles with values above 2**24", "full dynamic range of the integer type in the tile generator"),
 "C02-b1": ("lru_cache'd isdir() of the tile's row directory short-circuits read_image: a negative answer is frozen", "sparse pyramid, start>=3, a row directory created after it was first probed", "-"),
 "C02-b2": ("is_completely_masked tests `not any(isfinite)`: tiles whose defined pixels are all +-inf are not stored", "float tiles with infinities and no finite value", "non-finite (inf-only) float tiles in the generator; inf-aware comparison"),
 "C03-1": ("cancel_join_thread() right after creating the multi-TAN queue: the flush is skipped and the done flag is raised early", "feeder slower than the workers' time-out at shutdown", "stage x profile product (index correlation hid slow_feeder x multi-TAN)"),
 "C03-2": ("workers joined with a time-out; a worker still running is not reported", "an item still being processed 10 s after the queue drained", "join() time-outs dilated like queue time-outs; long last item; unfinished-item check"),
 "C03-b1": ("put_to_workers gives up after one Full time-out and returns as if the item had been enqueued", "queue full for longer than one time-out (slow consumers)", "-"),
 "C03-b2": ("check_workers only flags exit codes > 0: a worker killed by a signal goes unnoticed", "a worker SIGKILLed while it holds an item", "kill_item cases (worker SIGKILLed inside the callback)"),
 "C04-1": ("create_single_tile caches subdivisions by position, ignoring the coordinate system", "both coordinate systems used in one process on positions sharing an ancestor", "both systems interleaved per position inside one process"),
 "C04-2": ("flat-sky midpoint for edges shorter than one arcminute", "depth >= 15", "-"),
 "C04-b1": ("half-space scores above -1e-10 snapped to 0: deep descents always take the first child", "point lookup at depth >= 18", "lookup at the tile centre must return the tile's own position; depths to 26"),
 "C04-b2": ("planetary level-1 longitude no longer wrapped: lon in (pi, 2pi) falls through to the last quadrant", "planetary system, point lookup, western longitudes", "same"),
 "C05-1": ("planar (lon,lat) midpoints in _div4 from level 12", "tiles at depth >= 5 (pixel level >= 13)", "-"),
 "C05-2": ("toast_tile_get_coords cached by position without the coordinate system", "both coordinate systems on one position in one process", "other coordinate system evaluated back to back in-process"),
 "C06-1": ("put_to_workers drops the item after a full-queue time-out", "parallel sampling, more leaves than queue slots, slow consumers", "-"),
 "C06-2": ("early return for entirely undefined sampled tiles bypasses the unlink in clobbering mode", "clobbering over an existing layer with a sampler that leaves whole tiles undefined", "'reclobber' mode"),
 "C06-b1": ("level-0 grid taken as every other pixel of the level-1 grids (quarter-pixel shift)", "depth 0, exact comparison", "-"),
 "C06-b2": ("workers joined with a 5 s time-out", "slow sampler in parallel mode", "slow tiles in parallel runs (join time-outs are dilated)"),
 "C07-1": ("box bounds reduced modulo 2pi independently: widths above a full turn collapse", "box wider than 2pi, or image containing a pole", "-"),
 "C07-2": ("chunk sampler returns the stale reusable buffer when no pixel falls in the chunk", "several chunk columns, an accepted tile without pixels in the chunk after one with pixels", "-"),
 "C07-b1": ("image dimensions taken from wcs.pixel_shape in the wrong axis order", "non-square image whose WCS records NAXIS1/2 (read from FITS)", "footprints whose WCS carries pixel_shape"),
 "C07-b2": ("chunk sampler uses the x scale for the y axis", "map whose width is not twice its height", "non-2:1 maps"),
 "C08-1": ("row-flip decision taken from the image's default format instead of the pyramid's", "image default format of the other vertical parity than the tile format", "image default formats independent of the pyramid format"),
 "C08-2": ("each axis centred in its own power of two", "width and height rounding up to different powers of two", "-"),
 "C08-b1": ("memoised rectangle list copied into sub-tilings", "parent tiling enumerated before compute_for_subimage", "sub-tilings derived from an already used parent"),
 "C08-b2": ("is_completely_masked tests `not any(isfinite)`", "a tile whose image pixels are all non-finite with at least one infinity", "inf-only regions in float images"),
 "C09-1": ("full-tile fast path in the parallel worker fills and writes without the masked merge", "parallel, an input fully covering a tile with undefined pixels another input defines", "'layers' decomposition (inputs spanning the mosaic with complementary undefined regions)"),
 "C09-2": ("tile existence tested before the lock is taken; a blank buffer is used for 'new' tiles", "two workers reaching a not-yet-existing tile together", "-"),
 "C09-b1": ("input placement by np.round of each extreme (half-to-even)", "half-integer CRPIX and odd relative offsets", "-"),
 "C09-b2": ("write-back moved out of the lock", "parallel, shared tile, second worker acquiring inside the first one's write", "-"),
 "C10-1": ("lock reclaimed after a 10 s time-out", "a holder inside the critical section longer than the time-out", "long-hold histories with dilated monotonic clocks; mutual-exclusion invariant"),
 "C10-2": ("last updated tile kept in memory and reused instead of re-read", "A, B, A update order with a long-lived PyramidIO", "-"),
 "C10-b1": ("extra unlink of the lock path after the release", "next holder creates its marker between release and unlink; a third updater arrives", "pause injected right after the lock library's release"),
 "C10-b2": ("lock made optional and switched off for serial sampling passes", "two concurrent serial sample_layer_filtered passes on one pyramid", "slow samplers, more concurrent-pass cases"),
 "C11-1": ("np.fmod instead of % in the planet sampler", "longitudes below -pi", "-"),
 "C11-2": ("integer row origin shifts odd-height maps by half a row", "odd map height >= 3", "-"),
 "C12-1": ("only three of four children scored in the descent", "points on tile edges/corners", "-"),
 "C12-2": ("un-clipped stamp origin in the pixel fit", "nearest pixel in the first rows/columns of a tile", "-"),
 "C12-b1": ("np.isclose(score, 0) in the descent", "depth >= 12-14", "lookups to depth 16-24"),
 "C12-b2": ("single-slot memo of the last tile's pixel grid keyed by position only", "consecutive pixel lookups of one tile address in the two coordinate systems", "back-to-back lookup of the 180-degree rotated point in the other system"),
 "C13-1": ("filtered counts memoised per (kind, depth) and not cleared by subpyramid()", "count, then subpyramid(), then count on one object", "histories on one reused Pyramid object"),
 "C13-2": ("user filter skipped on the apex chain", "filter rejecting the apex or an ancestor, or apex at full depth", "-"),
 "C13-b1": ("ready-queue seeding lost its `is_live` test", "parallel walk, gap tile at depth-1", "-"),
 "C13-b2": ("analytic counts when the apex is at full depth", "TOAST, user filter disjoint from an apex at the pyramid depth", "-"),
 "C14-1": ("children whose recorded min/max is exactly 0 dropped (truthiness)", "a leaf whose finite min or max is exactly 0", "leaf kinds with exact zeros"),
 "C14-2": ("Image.save re-uses the range the image was loaded with", "a leaf populated in several update steps", "-"),
 "C14-b1": ("DATAMIN/DATAMAX read back only when float", "integer-typed FITS pyramids", "-"),
 "C14-b2": ("Builder.cascade copies the root range only while the image set's range is 0/0", "cascade, more data, cascade again (same or restored Builder)", "second-cascade histories"),
 "C15-1": ("fully undefined write unlinks the default-format path although an explicit format was given", "explicit format != pyramid default, prior file, fully undefined tile", "explicit formats and a bystander tile in the histories"),
 "C15-2": ("RGBA update requires source alpha >= buffer alpha", "semi-transparent source over more opaque buffer", "-"),
 "C15-b1": ("F16x3 folded into the scalar float branch (per-element validity)", "pixels with NaN in only some channels", "-"),
 "C15-b2": ("fill skips the clear when the rectangle 'covers' the buffer, comparing heights only for 2-D modes", "full-height partial-width rectangle into a buffer with prior content", "directed full-height / full-width rectangles"),
 "C16-1": ("CD-matrix fast path multiplies the reflection on the wrong side", "CD-form WCS with rotation/skew", "-"),
 "C16-2": ("PIL object flipped, cached array left stale", "PIL-backed image whose array was materialised before the flip", "PIL-backed images with preludes (found F10 on the way)"),
 "C17-1": ("TOAST image set moved to the Place's background slot: the reuse path cannot find it", "TOAST mode, second non-override call", "-"),
 "C17-2": ("each image of a TOAST collection sampled at its own level", "collection with different pixel scales, finer image first", "multi-image TOAST collections"),
 "C17-b1": ("cascade writes parents in the children's Image.default_format ('png' for anything loaded through PIL)", "jpg tile format and a cascade", "API workflow with jpg tiles"),
 "C17-b2": ("override only removes directories that contain index_rel.wtml", "interrupted run, then a shallower retry with override", "interrupted-run histories; TileLevels vs deepest layer on disk"),
 "C18-1": ("list.insert(-1, ...) leaves one file after index.wtml", "a fault during or before the last transfer", "-"),
 "C18-2": ("put_item skips files already present in the store", "a fault in the middle of a transfer, then a re-run", "-"),
 "C19-1": ("exit codes inspected only while some worker is alive", "failing item still running after all other workers exited", "late failures"),
 "C19-2": ("one check, then a blocking put", "every worker dies while the producer is blocked on a full queue", "systematic failures (every item fails after a delay)"),
 "C19-b1": ("check_workers stops scanning at the first live worker", "parallel walk, failure in a worker other than the first", "-"),
 "C19-b2": ("input images prefetched in a thread whose exceptions are lost", "error while loading an input image in the dispatching process", "faults while loading inputs"),
 "C05-b1": ("level-0 grid taken as every other pixel of the level-1 grids (centres of level-9 tiles (9,2j,2i))", "depth-0 sampling", "C05 now checks the grids handed to samplers by the real entry points, incl. level 0"),
 "C05-b2": ("sample_layer_filtered builds its ToastSampler without the coordinate system", "filtered entry point, planetary system, depth 0", "same"),
 "C07-b1": ("image dimensions taken from wcs.pixel_shape in the wrong axis order", "non-square image whose WCS records NAXIS1/2 (read from FITS)", "footprints whose WCS carries pixel_shape"),
 "C11-b1": ("latitude wrapped with a modulo: lat == +pi/2 reads the last row", "request containing the exact north pole, ny >= 2", "-"),
 "C11-b2": ("leading size-1 axes peeled off: a (1, nx, C) colour map is read as (nx, C)", "one-pixel-high colour map", "-"),
 "C16-b1": ("PC elements that are exactly 0.0 replaced by 1.0 (`pop(...) or default`)", "rotation by exactly 90/270 degrees with literal zeros", "exact quarter turns"),
 "C16-b2": ("|det| < 1e-12 reported as parity -1", "pixel scale below 1e-6 deg (VLBI)", "pixel scales down to micro-arcseconds"),
 "C16-b3": ("parity memoised by id(wcs)", "several short-lived WCS objects of mixed parity in one process", "-"),
 "C18-b1": ("put_item retried without rewinding the stream", "a transient store error during/after the copy of a non-index file", "transient (ordinary OSError) faults"),
 "C18-b2": ("refresh judges 'done' from the existence of the image's folder in the store", "publish interrupted after the first byte, then refresh", "the real `pipeline refresh` run after every third fault state"),
 "C20-b1": ("default HDU selection first probes the slot guessed for the previous file", "no selection, files with different layouts in a particular order", "-"),
 "C20-b2": ("descriptions cached; tiling analysis flips their parity in place", "collection analysed for tiling, then descriptions() compared with images()", "reuse history; bottom-up inputs"),
 "C20-1": ("resolved HDU cached by file path", "the same path listed twice with different indices", "repeated paths"),
 "C20-2": ("blank entries dropped from the --wcs-key list", "command-line key list containing the space key", "-"),
 "C01-c1": ("the dispatcher, on a done-queue time-out, takes a ready tile itself and reports it with a blocking put to the bounded done queue it alone drains", "all workers busy for more than a receive time-out with tiles waiting, then 2*k completions during the dispatcher's own callback", "heavy-tailed callback durations (profile heavy_tail); general 'every live process is blocked' deadlock predicate (the old one only knew a polling dispatcher)"),
 "C01-c2": ("worker reports completions with a time-limited put and re-runs the callback when the put times out", "dispatcher held up for more than a time-out with 2*k+1 completions pending", "- (slow_dispatcher profile)"),
 "C03-c1": ("leaf-visit worker falls through after an empty poll and calls the callback again with the previous item", "a worker that already handled a leaf sits idle for a time-out before shutdown", "- (slow_dispatcher / late_check profiles)"),
 "C03-c2": ("multi-TAN worker leaves after 20 accumulated (never reset) empty polls", "producer slower than the workers for 21 receive time-outs in total, items left afterwards", "producer-stall profile (two stalls of 12-32 time-outs at fixed early puts), 6-8 inputs under it"),
 "C06-c1": ("leaf-visit worker retires after 10 consecutive empty polls", "a gap of more than 10 time-outs in the producer, leaves left afterwards", "producer-stall profile in the parallel sampling runs"),
 "C06-c2": ("update_image takes no lock when the tile does not exist yet", "two jobs in update mode reaching the same new tile at the same time", "the two update passes as two concurrent jobs on one pyramid under statement-boundary delays (22 pairs per quick run)"),
 "C09-c1": ("finish_workers raises the done flag before the queue is flushed", "feeder slower than a worker's receive time-out at wind-up", "-"),
 "C09-c2": ("update_image breaks a tile lock after waiting 10 s", "two workers on one tile, the holder inside the locked region for more than 10 s", "statement-boundary delays inside toasty's tile I/O on a 300x dilated perf_counter in a third of the parallel runs"),
 "C10-c1": ("finish_workers waits at most one second per worker; the processors then sweep lock files that are still held", "workers still updating a shared tile when the last item has been handed out", "new 'stage' histories: the real MultiTan/MultiWcs processors with every input landing in the same tile(s), workers descheduled between statements"),
 "C10-c2": ("update_image breaks a lock whose recorded owner pid is gone - decided on what the lock file held earlier", "three parties: B reads the file while A holds, A releases and exits, C acquires, B's probe of A fails and B unlinks C's lock", "statement-boundary delay injection (sys.monitoring LINE events) in the updaters; 36 short histories per quick run in which updaters finish and exit while others still contend"),
 "C19-c1": ("finish_workers raises the done flag before the feeder has flushed", "slow feeder at wind-up and the failing item still in the feeder's buffer", "slow_feeder profile in the fault runs"),
 "C19-c2": ("walk dispatcher gained `finally: done_event.set()`; a sibling terminated inside Event.is_set dies holding the event's lock", "a worker failure and terminate() landing while a sibling is inside is_set()", "profile slow_isset (pause inside Event.is_set with its lock held); stuck-state rule for an owner blocked in Event.set; dead workers recognised through /proc"),
 "C01-d1": ("dispatcher leaves the loop on a done-queue time-out when the readiness table and the ready queue are empty", "a whole generation of tiles held by the workers for more than a time-out (>= 4 workers, slow callbacks starting together)", "- (slow_workers / heavy_tail profiles)"),
 "C01-d2": ("walk worker tests ready_queue.empty() and then does an untimed get()", "two idle workers probing the queue for the last tile within microseconds: the loser blocks for ever and the walk never returns", "stuck rule for an untimed get after the shutdown flag (get_call now records its time-out); before, the run ended by watchdog = inconclusive"),
 "C02-d1": ("TileMerger keeps the last merged tiles in a class-level dict that outlives the cascade and is inherited by workers", "a second cascade of the same directory in the same process after leaves changed", "-"),
 "C02-d2": ("dispatcher raises the done flag right after queueing the apex and leaves when no worker is alive", "feeder thread late by two time-outs on the apex item", "flush/shutdown profiles (slow_feeder, late_check, stall, heavy_tail) in C02's parallel cascades"),
 "C03-d1": ("leaf-visit worker: once the flag is up, empty() then untimed get()", "flag up while leaves are queued and two workers probe the last leaf together", "untimed-get stuck rule (see C01-d2)"),
 "C03-d2": ("fork-shared countdown `n_left.value -= 1` (locked read, separately locked write) gates the workers' exit", "two workers finishing an image at the same moment: the counter never reaches 0, workers poll for ever", "multiprocessing Value reads/writes instrumented (pause after a shared read in workers); rule 'worker keeps polling an empty queue after having seen the flag raised'"),
 "C10-d1": ("multi-TAN/WCS workers sweep 'stale' lock files when they start", "one worker starting while a sibling holds a tile lock and a third waits for it", "profile one_late (one worker starts when the log shows its siblings at work - logical, robust under load); long updates in those runs; C10 at 8 jobs"),
 "C10-d2": ("holder appends a line to its own lock file: filelock then treats the marker as malformed and removes it once it is 2 s old", "a holder inside the locked region for more than two wall-clock seconds while another updater polls", "two histories per quick run with a REAL 2.6 s hold (file ages cannot be dilated)"),
 "C13-d1": ("apex chain of the TOAST sub-pyramid filter kept in a class-level set shared by all filters of a process", "two subpyramid() calls with different apexes in one process, the earlier branch enumerated first", "-"),
 "C13-d2": ("pos_children memoised with lru_cache: every caller gets the same list object", "a caller that consumes the returned list (explicit-stack traversal), then any enumeration through that position", "the algebra cases now consume every returned list and ask again; enumeration and a leaf visit afterwards"),
 "C14-d1": ("TileMerger remembers the level of the first children it sees and measures (averaged) pixels there instead of combining recorded ranges", "a worker whose first item is an upper-level tile (more workers than bottom parents, late starter)", "-"),
 "C14-d2": ("cascade skips a parent whose file is newer than its children", "second cascade after a leaf was withdrawn or replaced by a file with an older timestamp", "second rounds with modifications: extreme leaf removed, leaf replaced by an older-dated file, leaf updated through update_image"),
 "C15-d1": ("PyramidIO remembers paths whose open failed (negative cache per handle)", "handle A probes an absent tile, handle B stores it, A reads or updates it", "persistence histories run through one to three PyramidIO handles on the same directory"),
 "C15-d2": ("fill clears only the rectangle recorded by the previous fill", "fill, update outside that rectangle, fill again - on one buffer object", "half of the buffer operations now re-use the buffer object of the previous operation (its contents are the prior state)"),
 "C17-d1": ("reuse path parses index_rel.wtml through an lru_cache keyed by path", "reuse, override with another input, reuse - in one process", "histories with override from ANOTHER input followed by reuse"),
 "C17-d2": ("reuse path takes the first of index*.wtml", "an absolutised index.wtml written next to index_rel.wtml (publication step) before the reuse", "history step 'absolutize' (same statements as `toasty pipeline approve`)"),
 "C18-d1": ("all files but index.wtml sent from a thread pool whose futures are dropped", "a transfer failure on any file but the last", "-"),
 "C18-d2": ("store writes to <item>.part opened with 'xb' and renames; no clean-up on error", "a failure during the copy inside put_item, then a re-run", "'mid' faults are now injected INSIDE the real put_item (shutil.copyfileobj dies after 7 bytes) instead of being simulated by the harness"),
 "C04-e1": ("level-1 corner table filled into ONE module-level array; tiles' corners are views of it", "both coordinate systems used in one process while tiles (or a running generator) of the first are still held", "new 'live' cases: tiles handed out earlier are re-examined after the other system was used through every route; a half-consumed enumeration is resumed"),
 "C04-e2": ("recursive tile walk rewritten with a module-level explicit stack", "two enumerations alive at once (zip, a search started and dropped inside another's loop)", "'live' cases: lockstep / nested-partial enumerations compared with solo ones (bounded, so that an endless enumeration is a violation, not a watchdog)"),
 "C05-e1": ("create_single_tile re-uses the ancestor chain of the previous result with a depth mis-alignment", "a request following one for a deeper tile with matching bits", "-"),
 "C05-e2": ("tile walk on a shared module-level work list", "enumerations advanced in lockstep or peeked inside another's loop", "route 'lockstep' (tiles taken from two interleaved enumerations), bounded"),
 "C06-e1": ("done flag raised before finish_workers flushes the queue", "feeder lagging one time-out behind at the end of dispatch", "-"),
 "C06-e2": ("update_image breaks a tile lock after waiting 15 s", "two jobs on one pyramid, one holding a tile for more than 15 s", "concurrent jobs run on a 300x dilated perf_counter; in half of them the first job's source is slow for its first tiles (the sampler runs inside the locked region)"),
 "C07-e1": ("lat/lon tile filter memoises its verdict per tile position", "one filter object used for tiles of both coordinate systems", "box cases: one filter answers for both systems, in random order, and again afterwards"),
 "C07-e2": ("chunk pixels kept on the ChunkedPlateCarreeSampler instance instead of in the closure", "a chunk's sampler used after sampler() was called for another chunk", "all (filter, sampler) pairs requested up front, used in order / reversed"),
 "C08-e1": ("tile_image skips write_image for a fully undefined tile (and with it the removal of an older file)", "an image tiled over the pyramid of an earlier image, undefined over a whole tile the old one populated", "history 'same_dir': an earlier image tiled into the directory first; the new one undefined over whole tiles"),
 "C08-e2": ("256x256 scratch buffer kept on the StudyTiling object", "one tiling object applied to two images of different modes", "history 'same_tiling'"),
 "C09-e1": ("workers unlink the lock files of the tiles they touched when they leave", ">= 3 workers; an idle worker exits while another is inside an update of a tile both touched and a third waits for it", "'stack' cases: 5-8 full-frame inputs with EXCLUSIVE fine stripes (a lost update of one tile is visible), 3-4 workers, long updates; my first stack inputs overlapped, so a lost update was masked by the other inputs"),
 "C09-e2": ("multi-TAN worker gives up after 10 consecutive idle polls", "producer stalls for more than 10 time-outs", "- (stall profile)"),
 "C11-e1": ("per-shape grid object (lru_cache) shared by all samplers; each factory overwrites its lon0", "two live samplers of one map shape with different longitude conventions; the older one used after the newer was built", "samplers of all other layouts are built (one is used) between building and using the sampler under test"),
 "C11-e2": ("planet samplers: floor of (lon % 2pi)*dx without clip", "longitudes within 4e-16 below the seam (denormals, -1e-300)", "-"),
 "C12-e1": ("tile lookup returns the remembered tile while the new point is within the remembered clearance of the PREVIOUS point (the radius drifts)", "consecutive same-depth lookups of close points that drift over an edge", "'track' cases: 60-step tracks at one depth, steps of 0.05-0.4 tile widths, incl. towards seams"),
 "C12-e2": ("pixel lookup results cached under positions rounded to 1e-8 rad", "depth >= 21 and an earlier lookup of another position in the same 1e-8 bin", "'pairs' cases: back-to-back lookups of positions a few nanoradians apart at depths 12-24"),
 "C16-e1": ("flipped rows copied into a scratch array cached per (shape, dtype)", "two live images of identical shape both flipped, the earlier one inspected afterwards", "groups of 2-4 same-shaped images flipped one after the other, then all inspected"),
 "C16-e2": ("flipped WCS cached under the header text, without the image height", "the same WCS on images with different numbers of rows", "one WCS on objects of four different heights in sequence"),
 "C19-e1": ("finish_workers joins each worker for at most 15 s and does not look at is_alive", "the failing item still in progress 15 s after the queue was flushed", "late failures of 0.25 / 0.7 / 1.5 s (12-75 s dilated); a stage that returns while the failing item is in progress is now a violation (was: inconclusive 'fault never injected')"),
 "C19-e2": ("on a worker failure the walk dispatcher raises the flag and joins all workers before reporting", "survivors still busy with > 2k tiles obtainable: a survivor blocks in put on the undrained done queue", "- (all-blocked rule)"),
 "C20-e1": ("--hdu-index parsed into the CLASS attribute of CollectionLoader", "a command line with the option, then one without, in one process", "-"),
 "C20-e2": ("default HDU guess accepts only PrimaryHDU / ImageHDU", "a file whose first image HDU is tile-compressed (CompImageHDU) followed by a plain image HDU", "30 % of the non-primary image HDUs are written tile-compressed (lossless GZIP)"),
}


def main():
    rows = []
    for d in sorted(glob.glob(os.path.join(V, "seeded", "*"))):
        sid = os.path.basename(d)
        mp = os.path.join(d, "meta.json")
        if not os.path.exists(mp):
            continue
        m = json.load(open(mp))
        if sid in N:
            m["mechanism"], m["needs_to_manifest"], m["check_strengthened_with"] = N[sid]
            json.dump(m, open(mp, "w"), indent=1)
        cq = m.get("check_quick", {})
        key = (cq.get("keys") or [""])[0]
        key = key[len("violation key="):].split(":")[0] if key else ""
        rows.append("| %s | %s | %s | %s | %s | %s |" % (sid, m.get("property"), m.get("mechanism", "?"), m.get("needs_to_manifest", "?"),
                                                   ("caught: `%s`" % key) if cq.get("caught") else "**missed**", m.get("check_strengthened_with", "?")))
    table = "| seed | prop | change | needs | quick tier | added to the check because of it |\n|---|---|---|---|---|---|\n" + "\n".join(rows)
    p = os.path.join(V, "DESIGN.md")
    s = open(p).read()
    if "<!-- SEEDED-TABLE -->" in s:
        s = re.sub(r"<!-- SEEDED-TABLE -->.*<!-- /SEEDED-TABLE -->", "<!-- SEEDED-TABLE -->\n" + table + "\n<!-- /SEEDED-TABLE -->", s, flags=re.S)
        open(p, "w").write(s)
    print(len(rows), "seeds in table; without notes:", [os.path.basename(d) for d in sorted(glob.glob(os.path.join(V, "seeded", "*"))) if os.path.basename(d) not in N])


if __name__ == "__main__":
    main()
