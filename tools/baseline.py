#!/usr/bin/env python3
"""Run the repository's test suite (guard off) and compare with /root/.vp/BASELINE.json stable_pass."""
import json, os, subprocess, sys, tempfile, xml.etree.ElementTree as ET
b = json.load(open("/root/.vp/BASELINE.json"))
x = tempfile.mktemp(suffix=".xml")
env = dict(os.environ); env.pop("TOASTY_VERIF", None)
subprocess.run("cd /repo && /venv/bin/python -m pytest -ra -q -p no:cacheprovider --timeout=900 --continue-on-collection-errors --junitxml=%s" % x,
               shell=True, env=env, stdout=subprocess.DEVNULL, stderr=subprocess.DEVNULL)
ok = set()
for tc in ET.parse(x).getroot().iter("testcase"):
    if not any(c.tag in ("failure", "error", "skipped") for c in tc):
        ok.add(tc.get("classname") + "::" + tc.get("name"))
os.unlink(x)
miss = [t for t in b["stable_pass"] if t not in ok]
print("passed %d; baseline %d; baseline tests not passing: %s" % (len(ok), len(b["stable_pass"]), miss))
sys.exit(1 if miss else 0)
