#!/bin/bash
# usage: tools/run_all.sh <tier> [ids...]; prints one summary line per check
tier=${1:-quick}; shift
ids=${@:-C01 C02 C03 C04 C05 C06 C07 C08 C09 C10 C11 C12 C13 C14 C15 C16 C17 C18 C19 C20}
for c in $ids; do
  start=$(date +%s)
  out=$(./vcheck $c --tier $tier 2>&1); rc=$?
  echo "== $c rc=$rc $(( $(date +%s) - start ))s :: $(echo "$out" | grep -E "^$c:" | tail -1)"
  echo "$out" | grep -E "VIOLATION|INCONCLUSIVE|KNOWN-FINDING|violation key" | cut -c1-600 | head -8
done
