#!/usr/bin/env python3
import json, os, glob
V = os.path.dirname(os.path.dirname(os.path.abspath(__file__)))
rows = []
for d in sorted(glob.glob(os.path.join(V, "seeded", "*"))):
    m = os.path.join(d, "meta.json")
    if not os.path.exists(m):
        continue
    j = json.load(open(m))
    cq = j.get("check_quick", {})
    rows.append((os.path.basename(d), j.get("status"), j.get("demo_without_change", {}).get("rc"), j.get("demo_with_change", {}).get("rc"),
                 len(j.get("baseline_tests_not_passing_with_change") or []), cq.get("caught"), (cq.get("keys") or [""])[0][14:110], ",".join(j.get("files", []))))
for r in rows:
    print("%-7s %-14s demo %s/%s tests_missing=%s caught=%-5s %s | %s" % r)
print(len(rows), "seeds;", sum(1 for r in rows if r[1] == "confirmed"), "confirmed;", sum(1 for r in rows if r[5]), "caught by the quick tier")
