#!/venv/bin/python
"""Re-run the property's check against seeded changes and refresh meta.json['check_quick'] (the first result is kept
under 'check_at_import'). usage: tools/seed_recheck.py [--tier quick] [seed ids ...] (default: all)"""
import glob
import json
import os
import shutil
import subprocess
import sys
import tempfile

V = os.path.dirname(os.path.dirname(os.path.abspath(__file__)))


def main():
    args = sys.argv[1:]
    tier = "quick"
    if "--tier" in args:
        i = args.index("--tier")
        tier = args[i + 1]
        del args[i:i + 2]
    dirs = [os.path.join(V, "seeded", a) for a in args] or sorted(glob.glob(os.path.join(V, "seeded", "*")))
    for sd in dirs:
        mp = os.path.join(sd, "meta.json")
        if not os.path.exists(mp):
            continue
        meta = json.load(open(mp))
        prop = meta["property"]
        base = tempfile.mkdtemp(prefix="seedre-")
        try:
            root = os.path.join(base, "repo")
            os.makedirs(root)
            shutil.copytree("/repo/toasty", os.path.join(root, "toasty"), ignore=shutil.ignore_patterns("__pycache__"))
            r = subprocess.run(["patch", "-p1", "-s", "-d", root, "-i", os.path.join(sd, "patch.diff")], capture_output=True, text=True)
            if r.returncode != 0:
                print(os.path.basename(sd), "patch no longer applies")
                continue
            env = dict(os.environ, VERIF_REPO=root, VERIF_EVIDENCE_DIR=os.path.join(base, "ev"), VERIF_REPLAY_DIR=os.path.join(base, "rp"))
            r = subprocess.run([os.path.join(V, "vcheck"), prop, "--tier", tier], cwd=V, env=env, capture_output=True, text=True)
            new = dict(rc=r.returncode, caught=r.returncode == 1, tier=tier,
                       keys=[l.strip()[:400] for l in r.stdout.splitlines() if l.strip().startswith("violation key=")][:3],
                       summary=[l for l in r.stdout.splitlines() if l.startswith(prop + ":")][-1:])
            if "check_at_import" not in meta and "check_quick" in meta:
                meta["check_at_import"] = meta["check_quick"]
            meta["check_quick"] = new
            json.dump(meta, open(mp, "w"), indent=1)
            print(os.path.basename(sd), "caught" if new["caught"] else "MISSED rc=%d" % r.returncode, (new["keys"] or [""])[0][14:120])
        finally:
            shutil.rmtree(base, ignore_errors=True)


if __name__ == "__main__":
    main()
