#!/venv/bin/python
"""Run any property's check against a seeded change without touching its meta.json.
usage: tools/seed_try.py <seed id> <PROP> [--tier quick] [extra vcheck args]"""
import os
import shutil
import subprocess
import sys
import tempfile

V = os.path.dirname(os.path.dirname(os.path.abspath(__file__)))
sd, prop = os.path.join(V, "seeded", sys.argv[1]), sys.argv[2]
extra = sys.argv[3:] or ["--tier", "quick"]
base = tempfile.mkdtemp(prefix="seedtry-")
try:
    root = os.path.join(base, "repo")
    os.makedirs(root)
    shutil.copytree("/repo/toasty", os.path.join(root, "toasty"), ignore=shutil.ignore_patterns("__pycache__"))
    r = subprocess.run(["patch", "-p1", "-s", "-d", root, "-i", os.path.join(sd, "patch.diff")], capture_output=True, text=True)
    if r.returncode != 0:
        sys.exit("patch does not apply: " + r.stdout + r.stderr)
    env = dict(os.environ, VERIF_REPO=root, VERIF_EVIDENCE_DIR=os.path.join(base, "ev"), VERIF_REPLAY_DIR=os.path.join(base, "rp"))
    r = subprocess.run([os.path.join(V, "vcheck"), prop] + extra, cwd=V, env=env, capture_output=True, text=True)
    keys = [l.strip()[:300] for l in r.stdout.splitlines() if l.strip().startswith("violation key=")]
    print(sys.argv[1], prop, "rc=%d" % r.returncode, "violations=%d" % len(keys))
    for k in keys[:4]:
        print("  ", k)
    if r.returncode not in (0, 1):
        print(r.stdout[-800:], r.stderr[-800:])
finally:
    shutil.rmtree(base, ignore_errors=True)
