"""C02: every parent tile is the 2x2 downsample of its children mosaic."""
import collections
import filecmp
import os
import random
import shutil

import numpy as np

from vlib import evlog, gens, instr_mp, models, sched, tilegen
from vlib import ref_quadtree as rq

PROPERTY = "C02"
LEVEL = "exploration"
OPTIMIZED_SAMPLE = (6, 60)  # cases repeated under python -O (quick, thorough)
JOBS = 14
CASE_TIMEOUT = 400
RULE = (
    "one case = one generated leaf layer (start depth 1-4, sparse population patterns, per-tile undefined-pixel patterns incl. whole 2x2 "
    "blocks / whole quadrants / all-but-one pixel / entirely undefined tiles) in one (format, mode) pair, written by an independent writer "
    "or by toasty, cascaded by cascade_images (serial and k workers, optional tile filter accepting every populated tile) or by the "
    "`toasty cascade` CLI. Oracle: level by level, every parent that should exist exists and equals the independent 2x2 block reduction of "
    "the STORED children read with numpy/PIL/astropy (NaN-mean within 4 eps x block magnitude for floats, |out-mean|<1 for integer/colour, "
    "same dtype), every other parent is absent; serial and parallel trees identical; a logging PyramidIO gives the boundary history (each "
    "parent written at most once, children read after their own write). 'history' cases re-cascade after adding/changing/removing "
    "leaves and compare with a fresh cascade. jpg is compared at the write_image boundary. Non-trivial: >= 2 parents produced; distinct by spec."
    ' Also: re-cascades after a leaf was removed / replaced by an older-dated file; one parent tile whose storing fails with ENOSPC (so'
    'urce-free failpoint in Image.save): the cascade must raise or the tree must be right.'
    " Round 8: foreign FITS leaves whose headers inherit a mosaic's DATAMIN/DATAMAX cards (incl. entirely undefined ones)."
    ' Round 9: foreign single-precision FITS leaves stored as 16-bit integers with BSCALE / BZERO cards.'
)
ASSUMPTIONS = [
    "a fully transparent pixel is undefined: its hidden colour channels do not take part in the mean (undefined = 0,0,0,0)",
    "integer tiles hold non-negative data (zero means undefined)",
    "rounding mode of integer means is not fixed by the statement (|out-mean| < 1)",
]
PATTERNS = ["none", "random", "blocks", "quadrant", "allbutone", "rows", "all"]


def cases(tier, seed):
    R = random.Random("c02/%d" % seed)
    out = []
    combos = [(f, m) for f in tilegen.FMT_MODES for m in tilegen.FMT_MODES[f]]
    n = 64 if tier == "quick" else 1600
    for i in range(n):
        fmt, mode = combos[i % len(combos)]
        start = R.choice([1, 2, 2, 3] if tier == "quick" else [1, 2, 3, 3, 4])
        out.append(dict(t="cascade", fmt=fmt, mode=mode, start=start, pop=R.choice(["one", "perquad", "half", "all", "clustered", "scattered"]),
                        par=R.choice([2, 4] if tier == "quick" else [2, 4, 16]), filt=R.choice([None, None, "posset", "box"]),
                        writer=R.choice(["independent", "toasty"]), via=("cli" if i % 9 == 0 else "api"), profile=R.choice(["natural", "straggler", "slow_dispatcher", "jitter", "slow_feeder", "late_check", "stall", "heavy_tail", "slow_feeder"]),
                        seed=R.randrange(1 << 30)))
    # `toasty cascade` without --format, on a pyramid under a path with dots in it
    for i in range(4 if tier == "quick" else 30):
        fmt, mode = [("npy", "F32"), ("fits", "F32"), ("png", "RGBA"), ("npy", "U8")][i % 4]
        out.append(dict(t="cascade", fmt=fmt, mode=mode, start=R.choice([1, 2]), pop=R.choice(["perquad", "half", "all"]), par=R.choice([1, 2]), filt=None,
                        writer="independent", via="cli", profile="natural", seed=R.randrange(1 << 30), guess_format=True))
    # greyscale png leaves in sparse pyramids (a missing child must stay transparent, not become black data)
    for i in range(4 if tier == "quick" else 40):
        out.append(dict(t="cascade", fmt="png", mode="RGB", start=R.choice([2, 3]), pop=R.choice(["one", "perquad", "half", "scattered"]), par=R.choice([2, 4]), filt=None,
                        writer="independent", via="api", profile="natural", seed=R.randrange(1 << 30), grey=True))
    # one parent tile cannot be stored (disk full) during the parallel cascade: the cascade must say so, or the tree must be right
    for i in range(6 if tier == "quick" else 60):
        fmt, mode = R.choice([("npy", "F32"), ("fits", "F32"), ("png", "RGBA"), ("npy", "U8")])
        out.append(dict(t="cascade", fmt=fmt, mode=mode, start=R.choice([2, 3]), pop=R.choice(["perquad", "half", "all"]), par=R.choice([1, 2, 4]), filt=None,
                        writer="independent", via="api", profile="natural", seed=R.randrange(1 << 30), io_fault=True))
    # directed: a populated layer whose every leaf is entirely undefined -> no parent may exist, up to the root
    for fmt, mode in (("npy", "F32"), ("fits", "F64"), ("png", "RGBA"), ("npy", "RGBA"), ("npy", "F16x3"), ("fits", "F32")):
        out.append(dict(t="cascade", fmt=fmt, mode=mode, start=R.choice([1, 2, 3]), pop=R.choice(["one", "perquad", "clustered"]), par=2, filt=None,
                        writer="independent", via="api", profile="natural", seed=R.randrange(1 << 30), force_pattern="all"))
    for i in range(8 if tier == "quick" else 100):
        fmt, mode = R.choice([("npy", "F32"), ("fits", "F32"), ("png", "RGBA"), ("npy", "U8"), ("png", "RGB")])
        out.append(dict(t="history", fmt=fmt, mode=mode, start=R.choice([2, 3]), par=R.choice([1, 2]), ops=R.choice(["remove", "add", "change", "remove_group", "mixed"]), seed=R.randrange(1 << 30)))
    return out


def populate(R, start, pop):
    leaves = [(start, x, y) for y in range(1 << start) for x in range(1 << start)]
    if pop == "one":
        return [R.choice(leaves)]
    if pop == "perquad":
        h = 1 << (start - 1)
        return [R.choice([p for p in leaves if (p[1] // h, p[2] // h) == q]) for q in ((0, 0), (1, 0), (0, 1), (1, 1))]
    if pop == "half":
        return R.sample(leaves, len(leaves) // 2)
    if pop == "all":
        return leaves
    if pop == "clustered":
        n0 = R.randrange(1, start + 1)
        a = (n0, R.randrange(1 << n0), R.randrange(1 << n0))
        return [p for p in leaves if rq.is_under(p, a)]
    return R.sample(leaves, max(1, len(leaves) // 5))


def write_leaves(base, fmt, mode, leaves, rng, R, writer, force_pattern=None, grey=False):
    from toasty.pyramid import PyramidIO

    pio = PyramidIO(base, default_format=fmt)
    n_undef = 0
    for p in leaves:
        pat = force_pattern or R.choice(PATTERNS)
        if mode == "RGB" and pat != "none":
            pat = "none"
        arr = tilegen.gen_tile(rng, mode, pat)
        if tilegen.entirely_undefined(arr):
            n_undef += 1
            if writer == "toasty":
                continue  # toasty would not store it
        if writer == "toasty":
            tilegen.write_tile_toasty(pio, p, fmt, arr)
        else:
            tilegen.write_tile(base, p, fmt, arr)
            if fmt == "fits" and (force_pattern == "all" or R.random() < 0.4):
                # a tile cut out of a larger mosaic by another tool: its header INHERITS the mosaic's DATAMIN / DATAMAX cards,
                # whatever this cut-out holds (possibly nothing at all)
                from astropy.io import fits as _fits

                fp = os.path.join(base, tilegen.tile_relpath(p, fmt))
                _fits.setval(fp, "DATAMIN", value=-3.5)
                _fits.setval(fp, "DATAMAX", value=812.25)
            if fmt == "fits" and mode == "F32" and np.isfinite(arr).all() and float(arr.max()) > float(arr.min()) and R.random() < 0.6:
                # a single-precision tile stored the compact way other tools use: 16-bit integers plus BSCALE / BZERO cards. Its
                # pixel VALUES are what the cards say (astropy hands them back as float32, like its neighbours'); the reference
                # reads them through astropy like everything else
                from astropy.io import fits as _fits

                fp = os.path.join(base, tilegen.tile_relpath(p, fmt))
                hdu = _fits.PrimaryHDU(np.array(_fits.getdata(fp), dtype=np.float32))
                hdu.scale("int16", "minmax")
                hdu.writeto(fp, overwrite=True)
            if grey and fmt == "png":
                # an 8-bit GREYSCALE png (PIL mode L), as other tools write for monochrome data: colour data like any other
                from PIL import Image as PI

                fp = os.path.join(base, tilegen.tile_relpath(p, fmt))
                PI.open(fp).convert("L").save(fp)
    return n_undef


def run_cascade(base, fmt, start, par, filt, via, spec, log, captured=None):
    from toasty import cli
    from toasty.merge import averaging_merger, cascade_images

    from vlib.pio import LoggingPIO

    evlog.open_log(log)
    pio = LoggingPIO(base, default_format=fmt)
    if captured is not None:
        pio.capture = lambda pos, image, kw: captured.__setitem__(tuple(pos), np.array(image.asarray()))
    if via == "cli":
        # with or without --format ("If not specified, this will be guessed")
        fmt_args = [] if (spec.get("guess_format") and fmt != "jpg") else ["--format", fmt]
        fn = lambda: cli.entrypoint(["cascade", "--start", str(start), "-j", str(par)] + fmt_args + [base])
    else:
        fn = lambda: cascade_images(pio, start, averaging_merger, parallel=par, tile_filter=filt)
    if par > 1:
        instr_mp.install(spec.get("profile", "natural"), spec["seed"])
        outcome, info = models.run_stage(fn, log, "walk", watchdog=200, hostile=dict(seed=spec["seed"], p=0.03, files=("pyramid.py", "par_util.py", "merge.py"), lo=0.001, hi=0.06, budget=1.0) if spec["seed"] % 4 == 0 else None)
    else:
        instr_mp.install("natural", spec["seed"])
        evlog.ev("stage_call")
        try:
            fn()
            evlog.ev("stage_ret")
            outcome, info = "returned", {}
        except Exception as e:
            evlog.ev("stage_exc", e=repr(e)[:300])
            outcome, info = "raised", dict(e=repr(e)[:400])
    recs = evlog.read(log)
    evlog.close_log()
    return outcome, info, recs


def verify_tree(base, fmt, start, probs, captured=None, stats=None):
    """level-by-level oracle on the files on disk"""
    tiles = tilegen.list_tiles(base, fmt)
    for n in range(start - 1, -1, -1):
        for y in range(1 << n):
            for x in range(1 << n):
                p = (n, x, y)
                ch = {(i, j): tilegen.read_tile(base, (n + 1, 2 * x + i, 2 * y + j), fmt) for i in (0, 1) for j in (0, 1)}
                ref = tilegen.ref_parent(ch)
                got = tilegen.read_tile(base, p, fmt)
                if ref is None:
                    if got is not None:
                        probs.append(("stale-childless-parent", "tile %s exists although none of its children does" % (p,)))
                    continue
                mos, mean, pix_def, mag = ref
                if fmt == "jpg":
                    # lossy: exactness is decided on the array handed to write_image (serial capture run)
                    if got is None:
                        probs.append(("parent-missing", "tile %s absent although it has children" % (p,)))
                    elif got.shape != (256, 256, 3):
                        probs.append(("parent-shape", "jpg tile %s decodes to %s" % (p, got.shape)))
                    if captured is not None:
                        cap = captured.get(p)
                        if cap is None:
                            probs.append(("parent-missing", "no write_image call for %s" % (p,)))
                        else:
                            pb = tilegen.compare_parent(cap, ref)
                            if pb:
                                probs.append(("pixels", "tile %s (at write_image): %s" % (p, pb)))
                    if stats is not None:
                        stats["parents_checked"] += 1
                    continue
                # expected existence: merged result not entirely undefined
                if mos.dtype.kind == "f":
                    exp_undef = bool(np.isnan(mean).all())
                elif mos.ndim == 3:
                    exp_undef = None  # decided on the produced alpha, which must be within 1 of the mean alpha
                else:
                    exp_undef = False
                if got is None:
                    if exp_undef is None:
                        # colour: absent is right iff every mean alpha < 1 (any representable rounding gives 0)
                        if (mean[..., 3] >= 1).any():
                            probs.append(("parent-missing", "tile %s absent although its mean alpha reaches %.2f" % (p, mean[..., 3].max())))
                    elif not exp_undef:
                        probs.append(("parent-missing", "tile %s absent although it has defined data beneath it" % (p,)))
                    if stats is not None:
                        stats["parents_absent_by_rule"] += 1
                    continue
                if exp_undef:
                    probs.append(("undefined-parent-stored", "tile %s stored although the merged result is entirely undefined" % (p,)))
                    continue
                g = tilegen.to_maskable(got) if (mos.ndim == 3 and got.ndim == 3 and got.shape[2] == 3 and mos.shape[2] == 4) else got
                if g is got and mos.ndim == 3 and mos.shape[2] == 4 and got.ndim == 3 and got.shape[2] == 3:
                    g = tilegen.to_maskable(got)
                pb = tilegen.compare_parent(g, ref)
                if pb:
                    probs.append(("pixels:" + ("bottom-up" if fmt in tilegen.BOTTOM_UP else "top-down"), "tile %s: %s" % (p, pb)))
                if stats is not None:
                    stats["parents_checked"] += 1
                    if mos.dtype.kind == "f" and np.isnan(mean).any():
                        stats["parents_with_undefined_pixels"] += 1
    return tiles


def history_checks(recs, probs):
    writes = collections.Counter()
    written_at = {}
    for i, r in enumerate(recs):
        if r["k"] == "pio_write":
            writes[tuple(r["pos"])] += 1
        elif r["k"] == "pio_write_ret":
            written_at[tuple(r["pos"])] = i
    for p, c in writes.items():
        if c > 1:
            probs.append(("parent-written-twice", "tile %s written %d times in one cascade" % (p, c)))
    for i, r in enumerate(recs):
        if r["k"] == "pio_read":
            p = tuple(r["pos"])
            if p in writes and written_at.get(p, 1 << 60) > i:
                probs.append(("child-read-before-written", "tile %s read before its own write completed in this cascade" % (p,)))


def compare_trees(a, b, fmt, probs, what):
    ta, tb = tilegen.list_tiles(a, fmt), tilegen.list_tiles(b, fmt)
    if ta != tb:
        probs.append((what + "-tileset", "tile sets differ: %s" % sorted(ta ^ tb)[:6]))
    for p in sorted(ta & tb):
        fa, fb = os.path.join(a, tilegen.tile_relpath(p, fmt)), os.path.join(b, tilegen.tile_relpath(p, fmt))
        if filecmp.cmp(fa, fb, shallow=False):
            continue
        xa, xb = tilegen.read_tile(a, p, fmt), tilegen.read_tile(b, p, fmt)
        if xa.shape != xb.shape or not np.array_equal(xa, xb, equal_nan=(xa.dtype.kind == "f")):
            probs.append((what + "-pixels", "tile %s differs between the two trees" % (p,)))
        elif fmt == "fits":
            from astropy.io import fits

            ha, hb = fits.getheader(fa), fits.getheader(fb)
            if dict(ha) != dict(hb):
                probs.append((what + "-headers", "FITS header of %s differs: %s" % (p, {k: (ha.get(k), hb.get(k)) for k in set(ha) | set(hb) if ha.get(k) != hb.get(k)})))


def make_filter(kind, leaves, start):
    if kind is None:
        return None
    if kind == "posset":
        acc = gens.closure(leaves)
        return lambda t: (int(t.pos.n), int(t.pos.x), int(t.pos.y)) in acc
    from toasty.samplers import _latlon_tile_filter

    return _latlon_tile_filter(-0.5, 7.0, -1.5707963267948966, 1.5707963267948966)


def case_cascade(spec, workdir):
    R = random.Random(spec["seed"])
    rng = np.random.default_rng(spec["seed"])
    fmt, mode, start = spec["fmt"], spec["mode"], spec["start"]
    leaves = populate(R, start, spec["pop"])
    src = os.path.join(workdir, "leaves")
    os.makedirs(src, exist_ok=True)
    n_undef = write_leaves(src, fmt, mode, leaves, rng, R, spec["writer"], spec.get("force_pattern"), grey=bool(spec.get("grey")))
    stored = tilegen.list_tiles(src, fmt)
    filt = make_filter(spec["filt"], [p for p in leaves if p in stored] or leaves, start)
    a, b = os.path.join(workdir, "serial"), os.path.join(workdir, "par")
    if spec.get("guess_format"):
        # the pyramid lives under a path with dots in it (a versioned directory, a relative './' spelling)
        os.makedirs(os.path.join(workdir, "m31.v2", "run.1"))
        b = os.path.join(workdir, "m31.v2", "run.1", "..", "run.1", "pyr")
    shutil.copytree(src, a)
    shutil.copytree(src, b)
    probs = []
    captured = {} if fmt == "jpg" else None
    o1, i1, recs1 = run_cascade(a, fmt, start, 1, filt, "api", spec, os.path.join(workdir, "log-s"), captured)
    if spec.get("io_fault"):
        import errno

        live = sorted({rq.parent(p) for p in stored}) or [(0, 0, 0)]
        fp_pos = R.choice(live)
        rel = tilegen.tile_relpath(fp_pos, fmt)
        sched.failpoint("image.py", "save", OSError(errno.ENOSPC, "No space left on device (injected)"), count=1,
                        when=lambda L: str(L.get("path_or_stream")).endswith(rel), on_fire=lambda: evlog.ev("fault_injected", pos=fp_pos))
    try:
        o2, i2, recs2 = run_cascade(b, fmt, start, spec["par"], filt if spec["via"] == "api" else None, spec["via"], spec, os.path.join(workdir, "log-p"))
    finally:
        sched.clear_failpoints()
    if spec.get("io_fault") and o2 == "raised" and any(r["k"] == "fault_injected" for r in recs2):
        # the failure was reported to the caller: nothing more to demand of this tree
        return dict(counters=dict(pyramids=1, io_faults_reported=1), nontrivial=True, sample=dict(spec=spec, failing_tile=fp_pos))
    if "watchdog" in (o1, o2):
        return dict(status="inconclusive", detail="watchdog")
    for o, i, nm in ((o1, i1, "serial"), (o2, i2, "parallel")):
        if o != "returned":
            probs.append(("cascade-" + o, "%s cascade: outcome %s %s" % (nm, o, i)))
    stats = collections.Counter()
    if o1 == "returned":
        verify_tree(a, fmt, start, probs, captured, stats)
        history_checks(recs1, probs)
    if o2 == "returned":
        p2 = []
        verify_tree(b, fmt, start, p2)
        probs += [("parallel:" + k, t) for k, t in p2]
        history_checks(recs2, probs)
    if o1 == "returned" and o2 == "returned" and fmt != "jpg":
        compare_trees(a, b, fmt, probs, "serial-parallel")
    elif o1 == "returned" and o2 == "returned":
        ta, tb = tilegen.list_tiles(a, fmt), tilegen.list_tiles(b, fmt)
        if ta != tb:
            probs.append(("serial-parallel-tileset", "tile sets differ: %s" % sorted(ta ^ tb)[:6]))
    counters = collections.Counter(stats)
    counters["pyramids"] += 1
    counters["statement_delays"] = sum(1 for r in recs2 if r["k"] == "sched") if spec["par"] > 1 else 0
    counters["pair_%s_%s" % (fmt, mode)] += 1
    counters["leaves_entirely_undefined"] += n_undef
    counters["filter_%s" % spec["filt"]] += 1
    counters["via_" + spec["via"]] += 1
    res = dict(counters=dict(counters), nontrivial=stats["parents_checked"] >= 2, sets=dict(fmt_mode=[[fmt, mode]]),
               sample=dict(spec=spec, leaves=len(stored), parents_checked=stats["parents_checked"]))
    if probs:
        keys = sorted({k for k, _ in probs})
        res.update(status="violation", key="+".join(keys)[:140], detail="; ".join(t for _, t in probs[:6]))
    return res


def case_history(spec, workdir):
    R = random.Random(spec["seed"])
    rng = np.random.default_rng(spec["seed"])
    fmt, mode, start = spec["fmt"], spec["mode"], spec["start"]
    leaves = populate(R, start, R.choice(["half", "perquad", "clustered", "all"]))
    d = os.path.join(workdir, "pyr")
    write_leaves(d, fmt, mode, leaves, rng, R, "independent")
    probs = []
    o, i, recs = run_cascade(d, fmt, start, spec["par"], None, "api", spec, os.path.join(workdir, "log1"))
    # modify the leaf layer
    stored = sorted(p for p in tilegen.list_tiles(d, fmt) if p[0] == start)
    ops = spec["ops"]
    done = []
    allleaves = [(start, x, y) for y in range(1 << start) for x in range(1 << start)]
    if ops in ("remove", "mixed") and stored:
        p = R.choice(stored)
        os.unlink(os.path.join(d, tilegen.tile_relpath(p, fmt)))
        done.append(("remove", p))
    if ops == "remove_group" and stored:
        par = rq.parent(R.choice(stored))
        for c in rq.children(par):
            f = os.path.join(d, tilegen.tile_relpath(c, fmt))
            if os.path.exists(f):
                os.unlink(f)
                done.append(("remove", c))
    if ops in ("add", "mixed"):
        free = [p for p in allleaves if p not in stored]
        if free:
            p = R.choice(free)
            tilegen.write_tile(d, p, fmt, tilegen.gen_tile(rng, mode, "none"))
            done.append(("add", p))
    if ops in ("change", "mixed") and stored:
        p = R.choice(stored)
        if os.path.exists(os.path.join(d, tilegen.tile_relpath(p, fmt))):
            tilegen.write_tile(d, p, fmt, tilegen.gen_tile(rng, mode, "random" if mode != "RGB" else "none"))
            done.append(("change", p))
    fresh = os.path.join(workdir, "fresh")
    for p in tilegen.list_tiles(d, fmt):
        if p[0] == start:
            dst = os.path.join(fresh, tilegen.tile_relpath(p, fmt))
            os.makedirs(os.path.dirname(dst), exist_ok=True)
            shutil.copy(os.path.join(d, tilegen.tile_relpath(p, fmt)), dst)
    o2, i2, _ = run_cascade(d, fmt, start, spec["par"], None, "api", spec, os.path.join(workdir, "log2"))
    if os.path.isdir(fresh):
        o3, i3, _ = run_cascade(fresh, fmt, start, 1, None, "api", spec, os.path.join(workdir, "log3"))
    else:
        os.makedirs(fresh)
        o3 = "returned"
    if "watchdog" in (o, o2, o3):
        return dict(status="inconclusive", detail="watchdog")
    for oo, nm in ((o, "first"), (o2, "second"), (o3, "fresh")):
        if oo != "returned":
            probs.append(("cascade-" + oo, "%s cascade: %s" % (nm, oo)))
    if not probs:
        verify_tree(d, fmt, start, probs)
        compare_trees(d, fresh, fmt, probs, "recascade-vs-fresh")
    res = dict(counters=dict(histories=1, **{"history_" + ops: 1}), nontrivial=True, sample=dict(spec=spec, modifications=done))
    if probs:
        keys = sorted({k for k, _ in probs})
        res.update(status="violation", key="history:" + "+".join(keys)[:120], detail="; ".join(t for _, t in probs[:6]) + "; modifications: %s" % done)
    return res


def run_case(spec, workdir):
    return case_cascade(spec, workdir) if spec["t"] == "cascade" else case_history(spec, workdir)


def finish(agg, tier):
    c = agg["counters"]
    miss = []
    if agg["sets"].get("fmt_mode", 0) < 16:
        miss.append("all 16 (format, mode) pairs")
    if c.get("parents_absent_by_rule", 0) < 1:
        miss.append("a parent that must not exist")
    if c.get("parents_checked", 0) < 100:
        miss.append("100 parents checked")
    if c.get("histories", 0) < 3:
        miss.append("re-cascade histories")
    if miss:
        return dict(inconclusive="deciding monitors not reached: %s" % miss)
    return {}
