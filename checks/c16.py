"""C16: flipping image parity reverses rows but moves no pixel on the sky."""
import math
import os
import random

import numpy as np

PROPERTY = "C16"
LEVEL = "exploration"
OPTIMIZED_SAMPLE = (5, 100)  # cases repeated under python -O (quick, thorough)
JOBS = 16
CASE_TIMEOUT = 300
RULE = (
    "one case = a block of random linear celestial WCS (TAN/SIN/CAR/ARC; CD-matrix, PC+CDELT or CDELT+CROTA-free forms; rotation 0-2pi; "
    "anisotropic scale; skew up to +-0.3; CRPIX inside / outside / fractional; sizes 1x1..400x300; both starting parities) plus the two "
    "FITS files of the repository. For each, Image.flip_parity / ensure_negative_parity and the ImageDescription counterparts run for "
    "real; oracle: reported parity sign negated and equal to an independent determinant sign from astropy's pixel_scale_matrix; array rows "
    "reversed exactly; for every pixel (all of them up to 64x64, 1000 sampled beyond) all_pix2world(x, y) before equals "
    "all_pix2world(x, H-1-y) after, compared as unit vectors within 1e-6 pixel; ensure_negative_parity yields -1 and is idempotent on "
    "pixels and WCS. Non-trivial: rotated or skewed WCS on an image with >= 2 rows; distinct by WCS parameters."
    ' Also: PIL-backed images touched before the flip; groups of same-shaped images all flipped before any is inspected; one WCS on obj'
    'ects of four different heights; WCS objects that remember a foreign pixel_shape; non-default LONPOLE / LATPOLE.'
    ' Round 8: CDELT+CROTA2 form; latitude-first headers.'
    ' Round 9: images built on array views (rotated by 180 degrees, mirrored, cropped, Fortran order).'
)
ASSUMPTIONS = ["astropy.wcs is the oracle for pixel -> sky"]


def cases(tier, seed):
    R = random.Random("c16/%d" % seed)
    n = 40 if tier == "quick" else 4000
    out = [dict(n=16 if tier == "quick" else 20, seed=R.randrange(1 << 30)) for _ in range(n)]
    out.append(dict(repo_files=True, n=0, seed=1))
    return out


def rand_wcs(R):
    from astropy.wcs import WCS

    w = WCS(naxis=2)
    proj = R.choice(["TAN", "TAN", "SIN", "CAR", "ARC"])
    w.wcs.ctype = ["RA---" + proj, "DEC--" + proj]
    dec = R.uniform(-85, 85) if proj != "CAR" else R.uniform(-30, 30)
    w.wcs.crval = [R.uniform(0, 360), dec]
    W, H = R.choice([1, 2, 3, 17, 64, 100, 400]), R.choice([1, 2, 3, 17, 64, 100, 300])
    kind = R.choice(["inside", "outside", "frac", "centre"])
    if kind == "inside":
        w.wcs.crpix = [R.randrange(1, W + 1), R.randrange(1, H + 1)]
    elif kind == "outside":
        w.wcs.crpix = [R.uniform(-200, 600), R.uniform(-200, 600)]
    elif kind == "frac":
        w.wcs.crpix = [R.uniform(0.5, W + 0.5), R.uniform(0.5, H + 0.5)]
    else:
        w.wcs.crpix = [(W + 1) / 2, (H + 1) / 2]
    s = 10 ** R.uniform(-9.5, -1)  # from micro-arcsecond (VLBI) pixels to 6 arcmin pixels
    an = R.choice([1.0, 1.0, R.uniform(0.5, 2)])
    rot = R.choice([0.0, R.uniform(0, 2 * math.pi)])
    skew = R.choice([0.0, 0.0, R.uniform(-0.3, 0.3)])
    par = R.choice([-1, 1])
    c, sn = math.cos(rot), math.sin(rot)
    if R.random() < 0.2:
        # exact quarter turns: literal zeros in the matrix (cos(radians(90)) is 6e-17, not 0)
        q = R.choice([1, 2, 3])
        rot = q * math.pi / 2
        c, sn = [(0.0, 1.0), (-1.0, 0.0), (0.0, -1.0)][q - 1]
        skew = 0.0
    M = np.array([[-s * c, par * s * an * sn + skew * s], [s * sn, par * s * an * c]])
    form = R.choice(["cd", "pc", "cdelt", "crota"])
    latfirst = R.random() < 0.15
    if latfirst:
        # a header whose FIRST world axis is the latitude (CTYPE1 = 'DEC--xxx'): legal FITS, produced by some pipelines
        w.wcs.ctype = ["DEC--" + proj, "RA---" + proj]
        w.wcs.crval = [w.wcs.crval[1], w.wcs.crval[0]]
    if form == "crota":
        # the old AIPS convention (also what AVM-tagged images turn into): CDELTi + CROTA2, no PC / CD cards
        w.wcs.cdelt = [-s, par * s * an]
        rot = R.choice([0.0, R.uniform(0, 2 * math.pi)])
        w.wcs.crota = [0.0, math.degrees(rot)]
        skew = 0.0
    elif form == "cd":
        w.wcs.cd = M
    elif form == "pc":
        cd1, cd2 = s * R.uniform(0.5, 2), s * R.uniform(0.5, 2)
        w.wcs.cdelt = [cd1, cd2]
        w.wcs.pc = M / np.array([[cd1], [cd2]])
    else:
        w.wcs.cdelt = [-s, par * s * an]
        rot, skew = 0.0, 0.0
    extra = "none"
    k = R.random()
    if k < 0.2:
        # an explicit, non-default native pole (LONPOLE; for CAR also the other LATPOLE solution)
        w.wcs.lonpole = R.choice([0.0, 150.0, -35.5, 90.0])
        if proj == "CAR" and R.random() < 0.5:
            w.wcs.latpole = R.choice([-90.0, 90.0])
        extra = "lonpole"
    if R.random() < 0.3:
        # the WCS object remembers a pixel grid (NAXISj of the header it came from) that is NOT this image's: a frame with
        # rows trimmed or padded, a solution computed on a reference image of another size
        w.pixel_shape = (W + R.choice([0, 3, -1 if W > 1 else 0]), max(1, H + R.choice([25, -7, 140, 1])))
        extra += "+pixel_shape"
    try:
        w.wcs.set()
        w.all_pix2world([[0.0, 0.0]], 0)
    except Exception:  # this pole does not exist for this projection / reference point: keep the default pole
        w.wcs.lonpole = float("nan")
        w.wcs.latpole = float("nan")
        w.wcs.set()
        extra = extra.replace("lonpole", "none")
    return w, W, H, dict(proj=proj, W=W, H=H, rot=rot, skew=skew, par=par, form=form, crpix=kind, scale=s, extra=extra, latfirst=latfirst)


def indep_parity(w):
    m = w.pixel_scale_matrix
    det = m[0, 0] * m[1, 1] - m[0, 1] * m[1, 0]
    return 1 if det < 0 else -1


def xyz(lon, lat):
    lon, lat = np.radians(lon), np.radians(lat)
    return np.stack([np.cos(lat) * np.cos(lon), np.cos(lat) * np.sin(lon), np.sin(lat)], axis=-1)


def moved(before, after, tol):
    """pixels that moved on the sky; a pixel outside the projection's domain (NaN world coordinates) must be so on both sides"""
    nb = ~np.isfinite(before).all(axis=1)
    na = ~np.isfinite(after).all(axis=1)
    d = np.linalg.norm(np.where(nb[:, None] | na[:, None], 0.0, before - after), axis=1)
    d = np.where(nb != na, np.inf, d)
    return d, ~(d <= tol)


def as_view(arr, R, counters):
    """the same pixel values, held the way callers really hold them: an owned copy, or a VIEW of another array (rotated by 180
    degrees, mirrored, a crop of a larger frame, Fortran order) - `np.rot90(a, 2)`, `a[:, ::-1]`, `big[10:, 5:]`, `a.T.copy().T`"""
    k = R.choice(["copy", "copy", "rot180", "fliplr", "flipud", "crop", "fortran"])
    counters["array_" + k] += 1
    if k == "rot180":
        return arr[::-1, ::-1].copy()[::-1, ::-1]
    if k == "fliplr":
        return arr[:, ::-1].copy()[:, ::-1]
    if k == "flipud":
        return arr[::-1].copy()[::-1]
    if k == "crop":
        big = np.full((arr.shape[0] + 7, arr.shape[1] + 5) + arr.shape[2:], 9, arr.dtype)
        big[3:3 + arr.shape[0], 2:2 + arr.shape[1]] = arr
        return big[3:3 + arr.shape[0], 2:2 + arr.shape[1]]
    if k == "fortran":
        return np.asfortranarray(arr)
    return arr.copy()


def check_flip(w0, W, H, arr, meta, probs, R, counters):
    from toasty.image import Image, ImageDescription

    scale = math.sqrt(abs(np.linalg.det(w0.pixel_scale_matrix)))
    if W * H <= 4096:
        yy, xx = np.indices((H, W))
        xs, ys = xx.ravel().astype(float), yy.ravel().astype(float)
    else:
        xs = np.array([R.randrange(W) for _ in range(1000)] + [0, W - 1, 0, W - 1], float)
        ys = np.array([R.randrange(H) for _ in range(1000)] + [0, 0, H - 1, H - 1], float)
    before = xyz(*w0.all_pix2world(xs, ys, 0))
    p0 = indep_parity(w0)
    for kind in ("image", "desc", "pil"):
        if kind == "pil":
            # a bitmap image backed by PIL, touched in various ways before the flip (cached array views must not go stale)
            from PIL import Image as PI

            rgb = np.stack([(np.abs(arr) * 40 % 255).astype(np.uint8)] * 3, axis=-1)
            rgb[..., 1] = (np.arange(H)[:, None] * 7 + np.arange(W)[None, :]) % 251
            obj = Image.from_pil(PI.fromarray(rgb), wcs=w0.deepcopy())
            prelude = R.choice(["none", "asarray", "dtype", "shape", "aspil"])
            if prelude == "asarray":
                obj.asarray()
            elif prelude == "dtype":
                obj.dtype
            elif prelude == "shape":
                obj.shape
            elif prelude == "aspil":
                obj.aspil()
            obj.flip_parity()
            counters["pil_flips_" + prelude] += 1
            if not np.array_equal(np.asarray(obj.asarray()), rgb[::-1]):
                probs.append("PIL-backed image (prelude %s): asarray() rows are not reversed after flip_parity (%s)" % (prelude, meta))
            if not np.array_equal(np.asarray(obj.aspil()), rgb[::-1]):
                probs.append("PIL-backed image (prelude %s): aspil() rows are not reversed after flip_parity (%s)" % (prelude, meta))
            if obj.get_parity_sign() != -p0:
                probs.append("PIL-backed image: parity not negated")
            after = xyz(*obj.wcs.all_pix2world(xs, H - 1 - ys, 0))
            if moved(before, after, math.radians(scale) * 1e-6 + 1e-12)[1].any():
                probs.append("PIL-backed image: pixels moved on the sky after flip_parity (%s)" % meta)
            obj.ensure_negative_parity()
            obj.ensure_negative_parity()
            want = rgb if -p0 == -1 else rgb  # after the first flip parity is -p0; ensure flips back iff -p0 == +1
            want = rgb[::-1] if -p0 == -1 else rgb
            if obj.get_parity_sign() != -1 or not np.array_equal(np.asarray(obj.asarray()), want):
                probs.append("PIL-backed image (prelude %s): ensure_negative_parity after a flip gives wrong rows / parity (%s)" % (prelude, meta))
            continue
        if kind == "image":
            obj = Image.from_array(as_view(arr, R, counters), wcs=w0.deepcopy())
        else:
            obj = ImageDescription(shape=arr.shape, wcs=w0.deepcopy())
        if obj.get_parity_sign() != p0:
            probs.append("%s: get_parity_sign()=%d, determinant sign says %d (%s)" % (kind, obj.get_parity_sign(), p0, meta))
        r = obj.flip_parity()
        if r is not obj:
            probs.append("%s.flip_parity() does not return self" % kind)
        w1 = obj.wcs
        if obj.get_parity_sign() != -p0 or indep_parity(w1) != -p0:
            probs.append("%s: parity after flip %d (independent %d), before %d (%s)" % (kind, obj.get_parity_sign(), indep_parity(w1), p0, meta))
        if kind == "image" and not np.array_equal(obj.asarray(), arr[::-1]):
            probs.append("image rows are not reversed exactly after flip_parity (%s)" % meta)
        after = xyz(*w1.all_pix2world(xs, H - 1 - ys, 0))
        tol = math.radians(scale) * 1e-6 + 1e-12
        d, bad = moved(before, after, tol)
        counters["pixels_compared"] += len(xs)
        if bad.any():
            j = int(np.argmax(d))
            probs.append("%s: pixel (x=%d,y=%d) moved on the sky by %.3g pixel after flip_parity (%s)" % (kind, xs[j], ys[j], d[j] / math.radians(scale), meta))
        # ensure_negative_parity: -1, idempotent
        obj2 = Image.from_array(as_view(arr, R, counters), wcs=w0.deepcopy()) if kind == "image" else ImageDescription(shape=arr.shape, wcs=w0.deepcopy())
        obj2.ensure_negative_parity()
        if obj2.get_parity_sign() != -1:
            probs.append("%s: ensure_negative_parity left parity %d" % (kind, obj2.get_parity_sign()))
        h1 = obj2.wcs.to_header(relax=True).tostring()
        a1 = obj2.asarray().copy() if kind == "image" else None
        e1 = xyz(*obj2.wcs.all_pix2world(xs, (H - 1 - ys) if p0 == 1 else ys, 0))
        if moved(before, e1, tol)[1].any():
            probs.append("%s: ensure_negative_parity moved pixels on the sky (%s)" % (kind, meta))
        if kind == "image" and not np.array_equal(a1, arr[::-1] if p0 == 1 else arr):
            probs.append("image: ensure_negative_parity rows wrong for starting parity %d" % p0)
        obj2.ensure_negative_parity()
        if obj2.wcs.to_header(relax=True).tostring() != h1 or (kind == "image" and not np.array_equal(obj2.asarray(), a1)):
            probs.append("%s: ensure_negative_parity is not idempotent (%s)" % (kind, meta))
        counters["flips_checked"] += 1


def check_group(R, rng, probs, counters):
    """several objects alive at once: (1) images of identical shape and dtype are all flipped, then all inspected;
    (2) one and the same WCS belongs to images with different numbers of rows (a frame, the frame trimmed, padded), flipped
    one after the other"""
    from toasty.image import Image, ImageDescription

    w, W, H, meta = rand_wcs(R)
    H = max(H, 4)
    k = R.choice([2, 3, 4])
    arrs = [rng.normal(size=(H, W)).astype(np.float32) for _ in range(k)]
    wcss = [w] + [rand_wcs(R)[0] for _ in range(k - 1)]
    imgs = [Image.from_array(a.copy(), wcs=x.deepcopy()) for a, x in zip(arrs, wcss)]
    for im in imgs:
        if R.random() < 0.7:
            im.flip_parity()
        else:
            im.ensure_negative_parity()
            if indep_parity(im.wcs) != -1:
                probs.append("ensure_negative_parity left parity %d" % indep_parity(im.wcs))
    xs = np.array([0, W - 1, W // 2, 0], float)
    for i, (im, a, x) in enumerate(zip(imgs, arrs, wcss)):
        flipped = indep_parity(im.wcs) != indep_parity(x)
        want = a[::-1] if flipped else a
        counters["group_images"] += 1
        if not np.array_equal(np.asarray(im.asarray()), want):
            probs.append("image %d of %d same-shaped images flipped one after the other: its rows are no longer its own %s rows (%s)" % (i, k, "reversed" if flipped else "original", meta))
        ys = np.array([0, H - 1, H // 2, H - 1], float)
        before = xyz(*x.all_pix2world(xs, ys, 0))
        after = xyz(*im.wcs.all_pix2world(xs, (H - 1 - ys) if flipped else ys, 0))
        scale = math.sqrt(abs(np.linalg.det(x.pixel_scale_matrix)))
        if moved(before, after, math.radians(scale) * 1e-6 + 1e-12)[1].any():
            probs.append("image %d of a group: pixels moved on the sky (%s)" % (i, meta))
    # (1b) ONE WCS object held by two things (a description and the image loaded later, the colour planes of one pointing):
    # flipping one of them must leave the other's WCS - and the caller's own object - as they were
    ws, Ws, Hs, metas = rand_wcs(R)
    hdr0 = ws.to_header(relax=True).tostring()
    d_ = ImageDescription(shape=(Hs, Ws), wcs=ws)
    i_ = Image.from_array(np.zeros((Hs, Ws), np.float32), wcs=ws)
    (d_ if R.random() < 0.5 else i_).flip_parity()
    counters["shared_wcs_objects"] += 1
    if ws.to_header(relax=True).tostring() != hdr0:
        probs.append("flip_parity of one holder changed the WCS object the caller still holds (shared by an Image and an ImageDescription) (%s)" % metas)
    # (1c) a flip that fails is all or nothing: rows and WCS still belong together afterwards
    wa, Wa, Ha, metaa = rand_wcs(R)
    try:
        from astropy.wcs import WCS as _W

        ha = wa.to_header(relax=True)
        for k_ in list(ha.keys()):
            if k_[:5] in ("CTYPE", "CRVAL", "CRPIX", "CDELT", "CUNIT") or k_[:2] in ("PC", "CD"):
                ha[k_ + "A"] = ha[k_]
        walt = _W(ha, key="A")
    except Exception:
        walt = None
    if walt is not None and Ha >= 2:
        arr_a = rng.normal(size=(Ha, Wa)).astype(np.float32)
        img_a = Image.from_array(arr_a.copy(), wcs=walt)
        p0a = indep_parity(walt)
        try:
            img_a.flip_parity()
            failed = False
        except Exception:
            failed = True
        counters["flips_of_alt_key_wcs_%s" % ("failed" if failed else "done")] += 1
        rows_rev = np.array_equal(np.asarray(img_a.asarray()), arr_a[::-1])
        rows_same = np.array_equal(np.asarray(img_a.asarray()), arr_a)
        wcs_flipped = indep_parity(img_a.wcs) == -p0a
        if not ((rows_rev and wcs_flipped) or (rows_same and not wcs_flipped)):
            probs.append("a flip_parity that %s left rows %s under a WCS of %s parity: pixels moved on the sky (%s)" % (
                "raised" if failed else "returned", "reversed" if rows_rev else ("unchanged" if rows_same else "scrambled"), "flipped" if wcs_flipped else "the old", metaa))
    # (2) the same WCS with different heights
    w2, W2, H2, meta2 = rand_wcs(R)
    scale = math.sqrt(abs(np.linalg.det(w2.pixel_scale_matrix)))
    for Hk in [H2, max(1, H2 - R.randrange(1, 20)), H2 + R.randrange(1, 200), H2]:
        kind = R.choice(["image", "desc"])
        obj = Image.from_array(np.zeros((Hk, W2), np.float32), wcs=w2.deepcopy()) if kind == "image" else ImageDescription(shape=(Hk, W2), wcs=w2.deepcopy())
        obj.flip_parity()
        xs2 = np.array([0, W2 - 1, W2 // 2], float)
        ys2 = np.array([0, Hk - 1, Hk // 2], float)
        before = xyz(*w2.all_pix2world(xs2, ys2, 0))
        after = xyz(*obj.wcs.all_pix2world(xs2, Hk - 1 - ys2, 0))
        d, bad = moved(before, after, math.radians(scale) * 1e-6 + 1e-12)
        counters["same_wcs_other_height"] += 1
        if bad.any():
            probs.append("%s of height %d flipped after objects of other heights with the same WCS: pixels moved on the sky by %.3g pixel (%s)" % (kind, Hk, float(np.nanmax(d)) / math.radians(scale), meta2))


def run_case(spec, workdir):
    import collections

    R = random.Random(spec["seed"])
    rng = np.random.default_rng(spec["seed"])
    probs = []
    counters = collections.Counter()
    nontriv = 0
    metas = []
    if spec.get("repo_files"):
        from astropy.io import fits
        from astropy.wcs import WCS

        from vlib.core import repo_root

        for fn in ("wcs512.fits.gz", "geminiann11015a_wcs.fits"):
            p = os.path.join(repo_root(), "toasty", "tests", fn)
            with fits.open(p) as hl:
                w = WCS(hl[0].header).celestial
                H, W = (hl[0].data.shape[-2:] if hl[0].data is not None else (int(hl[0].header.get("IMAGEH", 100)), int(hl[0].header.get("IMAGEW", 100))))
            arr = rng.normal(size=(H, W)).astype(np.float32)
            check_flip(w, W, H, arr, dict(file=fn), probs, R, counters)
            nontriv += 1
    for _ in range(spec["n"]):
        w, W, H, meta = rand_wcs(R)
        arr = rng.normal(size=(H, W)).astype(np.float32)
        check_flip(w, W, H, arr, meta, probs, R, counters)
        if (meta["rot"] or meta["skew"]) and H >= 2:
            nontriv += 1
        metas.append(meta)
        if len(probs) > 6:
            break
    for _ in range(3 if spec["n"] else 0):
        check_group(R, rng, probs, counters)
    counters["wcs_nontrivial"] = nontriv
    res = dict(counters=dict(counters), nontrivial=nontriv > 0, sets=dict(forms=[[m["proj"], m["form"], m["par"], m["crpix"]] for m in metas]), sample=dict(first=metas[:2]))
    if probs:
        res.update(status="violation", key="parity-flip", detail="; ".join(probs[:5]))
    return res


def finish(agg, tier):
    c = agg["counters"]
    if c.get("flips_checked", 0) < 300 or c.get("wcs_nontrivial", 0) < 100:
        return dict(inconclusive="too few flips: %s" % c)
    return {}
