"""C07: tile filters never drop a tile holding data; filtered sampling leaves no holes."""
import collections
import math
import os
import random

import numpy as np

from vlib import coherence, tilegen
from vlib import ref_quadtree as rq

PROPERTY = "C07"
LEVEL = "exploration"
JOBS = 16
CASE_TIMEOUT = 900
TWOPI = 2 * math.pi
RULE = (
    "'box' cases: random boxes (any origin in +-3*2pi, widths 1e-9..2.2*2pi, touching poles, straddling the seam) and pin-point boxes around "
    "one pixel centre of one tile (corner pixels, polar and seam tiles) evaluated by _latlon_tile_filter on a tile universe (all tiles on "
    "paths to depth 3, plus deep tiles with their ancestor chain), both coordinate systems. 'wcs' cases: random TAN footprints (1-300 px, "
    "0.5-4 TOAST pixels per pixel, any rotation, both parities, RA~0/360, |dec| to 89) and DIRECTED footprints whose extreme edge pokes "
    "0.3-2.5 TOAST pixels into a tile beyond its extreme-latitude/longitude corner (image axes 3-64 px), through WcsSampler.filter(). "
    "'chunk' cases: ChunkedPlateCarreeSampler.filter(i) on numpy-backed chunk grids with non-dividing sizes. Oracle: a tile with a pixel "
    "centre inside the region WITH MARGIN (box/chunk 1e-9 rad; footprint: astropy all_world2pix within [-0.5+1e-6, n-0.5-1e-6]) must be "
    "accepted, and so must all its ancestors; the inspected Tile (corners array, tuple) is bit-identical after the call. "
    "'sampling' cases: sample_layer_filtered(filter) vs unfiltered sampling of the same source, and all chunks in sequence vs whole-map "
    "sampling. Non-trivial: a decision where the oracle demands acceptance; distinct by (kind, region parameters)."
    ' Also: one filter object answering for both coordinate systems and from four concurrent threads; chunk (filter, sampler) pairs req'
    'uested up front / in reverse; chunk boundaries placed on the longitudes where TOAST pixel centres lie exactly (odd multiples of W/'
    '8); a transient EMFILE inside ImageLoader.load_path while a later chunk merges (the chunk is re-run when the error is reported).'
    ' Round 8: large boxes grazing tiles at depth 13-18 just past their outermost pixel centre.'
    ' Round 9: chunk passes through one PyramidIO object alternating between serial and forked workers, or alternating between two PyramidIO objects on one directory; float maps with large undefined regions cut into three chunk columns at depth 3.'
)
ASSUMPTIONS = ["astropy.wcs is the oracle for footprints", "toast_tile_get_coords is trusted here (C05)", "compiled extension as built; .pyx coherent with .c"]


def precheck():
    return coherence.check()


def cases(tier, seed):
    R = random.Random("c07/%d" % seed)
    out = []
    q = tier == "quick"
    for i in range(16 if q else 160):
        out.append(dict(t="box", cs=["astronomical", "planetary"][i % 2], n=25 if q else 100, seed=R.randrange(1 << 30)))
    for i in range(16 if q else 160):
        out.append(dict(t="pin", cs=["astronomical", "planetary"][i % 2], n=40 if q else 150, seed=R.randrange(1 << 30)))
    for i in range(32 if q else 400):
        out.append(dict(t="wcs", gen=["random", "directed", "directed", "directed_lon"][i % 4], n=8 if q else 25, depth=R.choice([3, 4] if q else [3, 4, 5, 6]), seed=R.randrange(1 << 30)))
    for i in range(6 if q else 60):
        out.append(dict(t="wcs", gen="polar", n=5 if q else 12, depth=R.choice([6, 7]), seed=R.randrange(1 << 30)))
    for i in range(8 if q else 60):
        out.append(dict(t="chunk", n=6 if q else 20, seed=R.randrange(1 << 30)))
    for i in range(4 if q else 50):
        out.append(dict(t="sampling", depth=2 if q else R.choice([2, 3]), seed=R.randrange(1 << 30), fmt=R.choice(["npy", "fits"]), _timeout=900))
    for i in range(4 if q else 40):
        out.append(dict(t="chunks_all", depth=R.choice([1, 2]), seed=R.randrange(1 << 30), map=i, _timeout=900))
    for i in range(5 if q else 40):
        out.append(dict(t="chunks_all", depth=R.choice([1, 2, 2]), seed=R.randrange(1 << 30), map=i, aligned=i + 1, _timeout=900))
    # three chunk columns at depth 3 (polar tiles are accepted by every chunk's filter but filled by few), the passes alternating
    # between two PyramidIO objects / between serial and forked workers
    for i in range(2 if q else 12):
        out.append(dict(t="chunks_all", depth=3, seed=6 * R.randrange(1 << 27) + (1 if i % 2 == 0 else 3), map=1, handles=(i % 2 == 0), cols3=True, _timeout=900))
    for i in range(3 if q else 30):
        out.append(dict(t="fits_tiler", n=[2, 3, 2][i % 3], par=[1, 2, 1][i % 3], seed=R.randrange(1 << 30), _timeout=900))
    return out


_G = {}


def _cs(name):
    from toasty.toast import ToastCoordinateSystem as CS

    return CS.PLANETARY if name == "planetary" else CS.ASTRONOMICAL


def tile_and_grid(cs, p):
    from toasty import toast
    from toasty.pyramid import Pos

    key = (cs, tuple(p))
    if key not in _G:
        t = toast.create_single_tile(Pos(*p), coordsys=_cs(cs))
        lon, lat = toast.toast_tile_get_coords(t)
        _G[key] = (t, lon, lat)
        if len(_G) > 400:
            for k in list(_G)[:100]:
                if k[1][0] > 3:
                    del _G[k]
    return _G[key]


def guarded(f, t, probs):
    """call the filter with a mutation guard on the inspected tile"""
    before = np.array(t.corners, dtype=float).copy()
    tup = (tuple(t.pos), bool(t.increasing), id(t.corners))
    r = f(t)
    after = np.array(t.corners, dtype=float)
    if not np.array_equal(before, after) or (tuple(t.pos), bool(t.increasing), id(t.corners)) != tup:
        probs.append(("tile-modified", "filter modified tile %s: corners %s -> %s" % (tuple(t.pos), before.tolist(), after.tolist())))
    return bool(r)


def inside_box(lon, lat, box, m=1e-9):
    lo0, lo1, la0, la1 = box
    w = lo1 - lo0
    ok = (lat >= la0 + m) & (lat <= la1 - m)
    if w - 2 * m < TWOPI:
        ok &= np.remainder(lon - (lo0 + m), TWOPI) <= (w - 2 * m)
    return ok


def ancestors(p):
    out = []
    p = tuple(p)
    while p[0] > 1:
        p = rq.parent(p)
        out.append(p)
    return out


def case_box(spec):
    from toasty.samplers import _latlon_tile_filter

    R = random.Random(spec["seed"])
    cs = spec["cs"]
    probs = []
    universe = rq.all_positions(3, 1)
    n_dec = 0
    n_must = 0
    for _ in range(spec["n"]):
        lon0 = R.uniform(-3 * TWOPI, 3 * TWOPI)
        w = 10 ** R.uniform(-9, math.log10(2.2 * TWOPI))
        if R.random() < 0.2:
            lon0 = R.choice([0.0, TWOPI, -math.pi, math.pi]) - w * R.random()  # straddle the seam
        la0 = R.uniform(-math.pi / 2, math.pi / 2)
        h = 10 ** R.uniform(-6, 0.5)
        la1 = min(math.pi / 2, la0 + h)
        if R.random() < 0.15:
            la1 = math.pi / 2
        if R.random() < 0.15:
            la0 = -math.pi / 2
        if not (la0 < la1 and lon0 < lon0 + w):
            continue
        box = (lon0, lon0 + w, la0, la1)
        f = _latlon_tile_filter(*box)
        # ONE filter object answers for tiles of both coordinate systems (a position is another patch of sky in the other
        # system), in a random order, and a second time afterwards
        ocs = "planetary" if cs == "astronomical" else "astronomical"
        order = [cs, ocs] if R.random() < 0.5 else [ocs, cs]
        for cs_ in order + [order[0]]:
            acc = {}
            must = {}
            for p in universe:
                t, lon, lat = tile_and_grid(cs_, p)
                acc[p] = guarded(f, t, probs)
                must[p] = bool(inside_box(lon, lat, box).any())
                n_dec += 1
            for p in universe:
                if must[p]:
                    n_must += 1
                    if not acc[p]:
                        probs.append(("box-false-negative:" + cs_, "box %r: tile %s has a pixel centre inside but is rejected (filter used for %s)" % (box, p, order)))
                    for a in ancestors(p):
                        if not acc[a]:
                            probs.append(("box-ancestor-rejected:" + cs_, "box %r: tile %s holds data but its ancestor %s is rejected (filter used for %s)" % (box, p, a, order)))
        if len(probs) > 6:
            break
    # the last filter object is also asked from four threads at once: its answers must be the serial ones
    from vlib import threads

    tl = [tile_and_grid(cs, p)[0] for p in universe[:: 2]]
    ncalls, bad = threads.concurrent_vs_serial([(lambda t=t: bool(f(t))) for t in tl], lambda a, b: a == b, nthreads=4, rounds=2, seed=spec["seed"], budget_s=2.0)
    if bad:
        probs.append(("box-filter-not-reentrant:" + cs, "box %r: %d of %d answers given to concurrent threads differ from the serial answers (first: tile %s)" % (box, len(bad), ncalls, tuple(tl[bad[0][0]].pos))))
    r = dict(counters=dict(box_decisions=n_dec, box_must_accept=n_must, box_decisions_from_threads=ncalls), nontrivial=n_must > 0, sample=dict(spec=spec))
    return _fin(r, probs)


def case_pin(spec):
    from toasty.samplers import _latlon_tile_filter

    R = random.Random(spec["seed"])
    cs = spec["cs"]
    probs = []
    n_dec = n_must = n_graze = 0
    for _ in range(spec["n"]):
        d = R.randrange(1, 10)
        x, y = R.randrange(1 << d), R.randrange(1 << d)
        if R.random() < 0.3:
            x = R.choice([0, (1 << d) - 1, 1 << (d - 1), (1 << (d - 1)) - 1])
            y = R.choice([0, (1 << d) - 1, 1 << (d - 1), (1 << (d - 1)) - 1])
        p = (d, x, y)
        t, lon, lat = tile_and_grid(cs, p)
        i = R.choice([0, 255, R.randrange(256)])
        j = R.choice([0, 255, R.randrange(256)])
        L, B = float(lon[i, j]), float(lat[i, j])
        w = 10 ** R.uniform(-8.5, -2)
        h = 10 ** R.uniform(-8.5, -2)
        k = R.randrange(-2, 3)
        lon0 = L - w * R.uniform(0.05, 0.95) + k * TWOPI
        la0 = max(-math.pi / 2, B - h * R.uniform(0.05, 0.95))
        la1 = min(math.pi / 2, la0 + h)
        box = (lon0, lon0 + w, la0, la1)
        if R.random() < 0.35:
            # a LARGE box that only grazes a DEEP tile: it reaches just past the tile's outermost pixel centre (by a few
            # nanoradians to half a microradian) and extends away from the tile. At depth >= 13 that pixel centre is less than
            # a microradian inside the tile's own bounding box.
            d = R.randrange(13, 19)
            x, y = R.randrange(1 << d), R.randrange(1 << d)
            p = (d, x, y)
            t = _single(cs, p)
            from toasty import toast as _toast

            lon, lat = _toast.toast_tile_get_coords(t)
            if np.abs(lat).max() > 1.45 or lon.max() - lon.min() > 1.0:
                continue
            delta = 10 ** R.uniform(-8.5, -6.4)
            w, h = 10 ** R.uniform(-3, -2), 10 ** R.uniform(-3, -2)
            side = R.choice(["top", "bottom", "left", "right"])
            if side in ("top", "bottom"):
                i, j = np.unravel_index(np.argmax(lat) if side == "top" else np.argmin(lat), lat.shape)
                L, B = float(lon[i, j]), float(lat[i, j])
                la0, la1 = (B - delta, min(math.pi / 2, B + h)) if side == "top" else (max(-math.pi / 2, B - h), B + delta)
                lon0 = L - w / 2
                box = (lon0, lon0 + w, la0, la1)
            else:
                i, j = np.unravel_index(np.argmax(lon) if side == "right" else np.argmin(lon), lon.shape)
                L, B = float(lon[i, j]), float(lat[i, j])
                lon0, lon1 = (L - delta, L + w) if side == "right" else (L - w, L + delta)
                box = (lon0, lon1, max(-math.pi / 2, B - h / 2), min(math.pi / 2, B + h / 2))
            n_graze += 1
        if not inside_box(np.array([L]), np.array([B]), box).all():
            continue
        f = _latlon_tile_filter(*box)
        n_must += 1
        for q in [p] + ancestors(p):
            tq = tile_and_grid(cs, q)[0] if q[0] <= 3 else _single(cs, q)
            n_dec += 1
            if not guarded(f, tq, probs):
                key = "box-false-negative:" if q == p else "box-ancestor-rejected:"
                probs.append((key + cs, "pin-point box %r around pixel (%d,%d) of tile %s: %s %s is rejected" % (box, i, j, p, "tile" if q == p else "ancestor", q)))
        if len(probs) > 6:
            break
    r = dict(counters=dict(pin_decisions=n_dec, pin_must_accept=n_must, grazing_boxes_on_deep_tiles=n_graze), nontrivial=n_must > 0, sample=dict(spec=spec))
    return _fin(r, probs)


def _single(cs, p):
    from toasty import toast
    from toasty.pyramid import Pos

    return toast.create_single_tile(Pos(*p), coordsys=_cs(cs))


def mk_wcs(nx, ny, ra, dec, scale, rot, par):
    from astropy.wcs import WCS

    w = WCS(naxis=2)
    w.wcs.ctype = ["RA---TAN", "DEC--TAN"]
    w.wcs.crval = [ra % 360.0, dec]
    w.wcs.crpix = [(nx + 1) / 2.0, (ny + 1) / 2.0]
    c, s = math.cos(rot), math.sin(rot)
    w.wcs.cd = np.array([[-scale * c, par * scale * s], [scale * s, par * scale * c]])
    if int(ra * 1000) % 2:
        # as read from a FITS file: the WCS also records the image dimensions, in FITS axis order (NAXIS1, NAXIS2) = (nx, ny)
        w.pixel_shape = (nx, ny)
    return w


def boundary(nx, ny, step=0.05):
    xs = np.arange(-0.5, nx - 0.5 + 1e-9, step)
    ys = np.arange(-0.5, ny - 0.5 + 1e-9, step)
    bx = np.concatenate([xs, np.full_like(ys, nx - 0.5), xs[::-1], np.full_like(ys, -0.5)])
    by = np.concatenate([np.full_like(xs, -0.5), ys, np.full_like(xs, ny - 0.5), ys[::-1]])
    return bx, by


def pixels_inside(w, nx, ny, lon, lat):
    x, y = w.all_world2pix(np.degrees(lon.ravel()), np.degrees(lat.ravel()), 0, quiet=True)
    ok = (x > -0.5 + 1e-6) & (x < nx - 0.5 - 1e-6) & (y > -0.5 + 1e-6) & (y < ny - 0.5 - 1e-6)
    # points on the far hemisphere of the tangent point project to spurious positions: require < 89 deg from CRVAL
    ra0, de0 = np.radians(w.wcs.crval)
    cosd = np.sin(de0) * np.sin(lat.ravel()) + np.cos(de0) * np.cos(lat.ravel()) * np.cos(lon.ravel() - ra0)
    ok &= cosd > math.cos(math.radians(89))
    ok &= np.isfinite(x) & np.isfinite(y)
    return ok.reshape(lon.shape)


def case_wcs(spec):
    from toasty import samplers

    R = random.Random(spec["seed"])
    probs = []
    D = spec["depth"]
    pix = 180.0 / 2 ** D / 256  # approximate TOAST pixel size in degrees at depth D
    cs = "astronomical"
    n_dec = n_must = n_fp = 0
    small = 0
    for _ in range(spec["n"]):
        p = (D, R.randrange(1 << D), R.randrange(1 << D))
        t, lon, lat = tile_and_grid(cs, p)
        par = R.choice([-1, 1])
        rot = R.uniform(0, TWOPI)
        if spec["gen"] == "polar":
            # an image that contains a celestial pole: the latitude extreme is in its interior
            south = R.random() < 0.5
            h = 1 << (D - 1)
            if south:
                p = (D, R.choice([0, 1, 2, (1 << D) - 1, (1 << D) - 2]), R.choice([0, 1, 2, (1 << D) - 1, (1 << D) - 2]))
            else:
                p = (D, h + R.randrange(-3, 3), h + R.randrange(-3, 3))
            t, lon, lat = tile_and_grid(cs, p)
            nx, ny = R.choice([120, 200, 300]), R.choice([120, 200, 300])
            scale = pix * R.uniform(2, 6)
            dec = (-90 if south else 90) + (1 if south else -1) * scale * R.uniform(0.5, min(nx, ny) / 4)
            w = mk_wcs(nx, ny, R.uniform(0, 360), dec, scale, rot, par)
        elif spec["gen"] == "random":
            nx, ny = R.choice([1, 2, 5, 17, 64, 150, 300]), R.choice([1, 2, 5, 17, 64, 150, 300])
            scale = pix * R.uniform(0.5, 4)
            i, j = R.randrange(256), R.randrange(256)
            ra, dec = math.degrees(lon[i, j]), math.degrees(lat[i, j])
            if abs(dec) > 89.0:
                continue
            w = mk_wcs(nx, ny, ra, dec, scale, rot, par)
        else:
            lats = [float(c[1]) for c in t.corners]
            lons = [float(c[0]) for c in t.corners]
            if max(abs(math.degrees(l)) for l in lats) > 75:
                continue
            nx, ny = R.choice([3, 6, 10, 17, 25, 31, 40, 64]), R.choice([3, 6, 10, 17, 25, 31, 40, 64])
            scale = pix * R.uniform(1, 4)
            eps = R.uniform(0.3, 2.5)
            bx, by = boundary(nx, ny)
            if spec["gen"] == "directed":
                which = R.choice(["min", "max"])
                k = int(np.argmin(lats)) if which == "min" else int(np.argmax(lats))
                lon_c, lat_c = math.degrees(lons[k]) % 360, math.degrees(lats[k])
                sgn = 1 if which == "min" else -1
                ra, dec = lon_c, lat_c - sgn * scale * max(nx, ny) / 2
                for _it in range(4):
                    w = mk_wcs(nx, ny, ra, dec, scale, rot, par)
                    lo, la = w.all_pix2world(bx, by, 0)
                    jx = int(np.argmax(la)) if which == "min" else int(np.argmin(la))
                    dec += (lat_c + sgn * eps * pix) - la[jx]
                    ra += ((lon_c - lo[jx] + 180) % 360 - 180)
            else:
                # longitude extremes: the image approaches the tile from the east or west
                # unwrap the corner longitudes around their circular mean
                ref = lons[0]
                ul = [ref + ((l - ref + math.pi) % TWOPI - math.pi) for l in lons]
                which = R.choice(["min", "max"])
                k = int(np.argmin(ul)) if which == "min" else int(np.argmax(ul))
                lon_c, lat_c = math.degrees(ul[k]), math.degrees(lats[k])
                sgn = 1 if which == "min" else -1
                cosl = max(0.2, math.cos(math.radians(lat_c)))
                ra, dec = lon_c - sgn * scale * max(nx, ny) / 2 / cosl, lat_c
                for _it in range(4):
                    w = mk_wcs(nx, ny, ra, dec, scale, rot, par)
                    lo, la = w.all_pix2world(bx, by, 0)
                    dl = (lo - lon_c + 180) % 360 - 180
                    jx = int(np.argmax(dl)) if which == "min" else int(np.argmin(dl))
                    ra += (sgn * eps * pix / cosl) - dl[jx]
                    dec += lat_c - la[jx]
            w = mk_wcs(nx, ny, ra, dec, scale, rot, par)
        if abs(w.wcs.crval[1]) > 89.5 and spec["gen"] != "polar":
            continue
        n_fp += 1
        f = samplers.WcsSampler(np.zeros((ny, nx), np.float32), w).filter()
        cand = [p]
        if spec["gen"] == "random":
            cand += [(D, p[1] + dx, p[2] + dy) for dx in (-1, 0, 1) for dy in (-1, 0, 1) if (dx or dy) and 0 <= p[1] + dx < (1 << D) and 0 <= p[2] + dy < (1 << D)][: 4]
        for q in cand:
            tq, lq, bq = tile_and_grid(cs, q)
            ins = pixels_inside(w, nx, ny, lq, bq)
            if not ins.any():
                continue
            n_must += 1
            if min(nx, ny) <= 31:
                small += 1
            for a in [q] + ancestors(q):
                ta = tile_and_grid(cs, a)[0] if a[0] <= 4 else _single(cs, a)
                n_dec += 1
                if not guarded(f, ta, probs):
                    bounds = samplers.WcsSampler(np.zeros((ny, nx), np.float32), w)._image_bounds()
                    key = "wcs-false-negative" if a == q else "wcs-ancestor-rejected"
                    key += ":small-axis" if min(nx, ny) <= 31 else ""
                    probs.append((key, "footprint %dx%d crval=(%.6f,%.6f) scale=%.3g TOAST px rot=%.1f par=%d: tile %s has %d pixel centres inside the image but %s %s is rejected (bounds lon %.6f..%.6f lat %.6f..%.6f deg)" % (
                        nx, ny, w.wcs.crval[0], w.wcs.crval[1], scale / pix, math.degrees(rot), par, q, int(ins.sum()), "it" if a == q else "its ancestor", a if a != q else "",
                        math.degrees(bounds[0]), math.degrees(bounds[1]), math.degrees(bounds[2]), math.degrees(bounds[3]))))
                    break
        if len(probs) > 6:
            break
    r = dict(counters={"wcs_footprints": n_fp, "wcs_decisions": n_dec, "wcs_must_accept": n_must, "wcs_small_axis_must_accept": small, "wcs_gen_" + spec["gen"]: n_fp},
             nontrivial=n_must > 0, sample=dict(spec=spec))
    return _fin(r, probs)


class FakeChunked:
    """numpy-backed stand-in with the duck type ChunkedPlateCarreeSampler documents"""

    def __init__(self, data, cw, ch):
        self.data = data
        self.shape = data.shape
        H, W = data.shape[:2]
        self.specs = [(x, y, min(cw, W - x), min(ch, H - y)) for y in range(0, H, ch) for x in range(0, W, cw)]
        self.n_chunks = len(self.specs)

    def chunk_spec(self, i):
        return self.specs[i]

    def chunk_data(self, i):
        x, y, w, h = self.specs[i]
        return self.data[y:y + h, x:x + w]


def case_chunk(spec):
    from toasty import samplers

    R = random.Random(spec["seed"])
    probs = []
    cs = "planetary"
    n_dec = n_must = 0
    universe = rq.all_positions(3, 1)
    for _ in range(spec["n"]):
        H = R.choice([16, 33, 64, 100])
        W = R.choice([32, 65, 128, 200, 48])
        cw, ch = R.randrange(3, W + 1), R.randrange(3, H + 1)
        fc = FakeChunked(np.zeros((H, W), np.float32), cw, ch)
        ck = samplers.ChunkedPlateCarreeSampler(fc, planetary=True)
        i = R.randrange(fc.n_chunks)
        x, y, w, h = fc.specs[i]
        box = (TWOPI / W * x - math.pi, TWOPI / W * (x + w) - math.pi, math.pi / 2 - math.pi / H * (y + h), math.pi / 2 - math.pi / H * y)
        f = ck.filter(i)
        acc = {}
        must = {}
        for p in universe:
            t, lon, lat = tile_and_grid(cs, p)
            acc[p] = guarded(f, t, probs)
            must[p] = bool(inside_box(lon, lat, box).any())
            n_dec += 1
        for p in universe:
            if must[p]:
                n_must += 1
                for a in [p] + ancestors(p):
                    if not acc[a]:
                        probs.append(("chunk-false-negative", "map %dx%d chunk %d %r: tile %s has a pixel centre in the chunk but %s is rejected" % (H, W, i, fc.specs[i], p, a)))
        if len(probs) > 6:
            break
    r = dict(counters=dict(chunk_decisions=n_dec, chunk_must_accept=n_must), nontrivial=n_must > 0, sample=dict(spec=spec))
    return _fin(r, probs)


def case_sampling(spec, workdir):
    """sample_layer_filtered(filter, sampler) vs unfiltered sampling of the same source"""
    from toasty import samplers, toast
    from toasty.pyramid import PyramidIO

    R = random.Random(spec["seed"])
    rng = np.random.default_rng(spec["seed"])
    D = spec["depth"]
    pix = 180.0 / 2 ** D / 256
    nx, ny = R.choice([20, 90, 300]), R.choice([20, 90, 300])
    w = mk_wcs(nx, ny, R.choice([0.3, 359.8, R.uniform(0, 360)]), R.uniform(-80, 80), pix * R.uniform(0.8, 3), R.uniform(0, TWOPI), R.choice([-1, 1]))
    data = rng.normal(size=(ny, nx)).astype(np.float32)
    ws = samplers.WcsSampler(data, w)
    fmt = spec["fmt"]
    a, b = os.path.join(workdir, "filtered"), os.path.join(workdir, "full")
    toast.sample_layer_filtered(PyramidIO(a, default_format=fmt), ws.filter(), ws.sampler(), D, parallel=[1, 2, 3][spec["seed"] % 3])
    toast.sample_layer_filtered(PyramidIO(b, default_format=fmt), lambda t: True, ws.sampler(), D, parallel=1)
    ta, tb = tilegen.list_tiles(a, fmt), tilegen.list_tiles(b, fmt)
    probs = []
    n = 0
    for p in sorted(tb):
        y = tilegen.read_tile(b, p, fmt)
        n += 1
        if p not in ta:
            probs.append(("sampling-hole", "tile %s holds %d defined pixels without the filter but is absent with it" % (p, int((~np.isnan(y)).sum()))))
            continue
        x = tilegen.read_tile(a, p, fmt)
        if not np.array_equal(x, y, equal_nan=True):
            probs.append(("sampling-differs", "tile %s differs between filtered and unfiltered sampling" % (p,)))
    for p in ta - tb:
        probs.append(("sampling-extra", "tile %s only exists with the filter" % (p,)))
    r = dict(counters=dict(sampling_comparisons=1, sampling_tiles=n), nontrivial=n > 0, sample=dict(spec=spec, tiles=n, image=[nx, ny]))
    return _fin(r, probs)


def case_chunks_all(spec, workdir):
    from toasty import samplers, toast
    from toasty.pyramid import PyramidIO
    from toasty.toast import ToastCoordinateSystem as CS

    R = random.Random(spec["seed"])
    maps = [(24, 64), (64, 128), (40, 48), (33, 67), (60, 61), (50, 100)]  # 2:1 and clearly non-2:1 aspect ratios alternate
    H, W = maps[spec.get("map", R.randrange(6)) % len(maps)]
    cw, ch = R.randrange(W // 4, W), R.randrange(H // 4, H)
    if spec.get("aligned"):
        # chunk boundaries on the longitudes / latitudes where TOAST pixel centres lie EXACTLY: the diagonals of the TOAST
        # square (lon = +-pi/4, +-3pi/4, i.e. map columns k*W/8) and nothing else; chunk widths of both parities
        H, W = [(64, 128), (24, 64), (40, 48), (100, 200), (36, 72)][spec["aligned"] % 5]
        cw = (W // 8) * R.choice([1, 3, 1, 3, 5])  # odd multiples: a boundary on lon = -3pi/4 or -pi/4
        ch = R.choice([H // 4, H // 2, H // 3, H])
    if spec.get("cols3"):
        cw, ch = -(-W // 3), H
    idmap = (np.arange(H * W).reshape(H, W) + 1).astype(np.int32)
    if spec.get("cols3"):
        # a FLOAT map with large undefined (NaN) regions: whole chunks define hardly anything, so most tiles their filters accept
        # stay untouched by them (cell numbers stay exact in float32: H*W < 2**24)
        idmap = idmap.astype(np.float32)
        idmap[H // 5:, :cw] = np.nan
        idmap[:H // 2, 2 * cw:] = np.nan
    fc = FakeChunked(idmap, cw, ch)
    ck = samplers.ChunkedPlateCarreeSampler(fc, planetary=True)
    D = spec["depth"]
    a = os.path.join(workdir, "chunks")
    pio = PyramidIO(a, default_format="npy")
    pio_b = PyramidIO(a, default_format="npy")
    how = ["one_by_one", "pairs_first", "pairs_first_reversed", "samplers_first"][spec["seed"] % 4]
    from vlib import sched

    io = dict(n=0, k=0)

    def run_chunk(fl, sm):
        io["k"] += 1
        if io["k"] >= 2 and spec["seed"] % 2 == 0 and io["n"] < 2:
            # a transient I/O error (too many open files) while an existing tile is read back for merging: the run reports
            # it, the chunk is sampled again, and the layer must be complete
            import errno

            sched.failpoint("image.py", "load_path", OSError(errno.EMFILE, "Too many open files (injected)"), skip=R.randrange(0, 3), count=1)
            try:
                toast.sample_layer_filtered(pio, fl, sm, D, coordsys=CS.PLANETARY, parallel=1)
            except OSError:
                io["n"] += 1
                sched.clear_failpoints()
                toast.sample_layer_filtered(pio, fl, sm, D, coordsys=CS.PLANETARY, parallel=1)
            finally:
                sched.clear_failpoints()
            return
        # in a third of the cases the passes through this ONE PyramidIO object alternate between serial and forked workers
        par = [1, 2, 1, 2][io["k"] % 4] if spec["seed"] % 3 == 0 else 1
        io["par"] = io.get("par", 0) + int(par > 1)
        # ... and in another third the passes alternate between TWO PyramidIO objects on the same directory (two jobs)
        h = pio if not (spec["seed"] % 3 == 1 or spec.get("handles")) or io["k"] % 2 else pio_b
        toast.sample_layer_filtered(h, fl, sm, D, coordsys=CS.PLANETARY, parallel=par)

    if how == "one_by_one":
        for i in range(fc.n_chunks):
            run_chunk(ck.filter(i), ck.sampler(i))
    else:
        # every (filter, sampler) pair is requested up front and used afterwards (in order or reversed)
        if how == "samplers_first":
            smp = [ck.sampler(i) for i in range(fc.n_chunks)]
            pairs = [(ck.filter(i), smp[i]) for i in range(fc.n_chunks)]
        else:
            pairs = [(ck.filter(i), ck.sampler(i)) for i in range(fc.n_chunks)]
        if how == "pairs_first_reversed":
            pairs.reverse()
        for fl, sm in pairs:
            run_chunk(fl, sm)
    n_io = io["n"]
    g = samplers.plate_carree_planet_sampler(idmap)
    probs = []
    n = ties = 0
    for p in rq.all_positions(D, D):
        got = tilegen.read_tile(a, p, "npy")
        t, lon, lat = tile_and_grid("planetary", p)
        ref = g(lon, lat)
        n += 1
        if idmap.dtype.kind == "f":
            # undefined (NaN) map cells: a pixel is expected undefined exactly where the whole-map value is; a tile without any
            # defined pixel need not exist
            if got is None:
                if not np.isnan(ref).all():
                    probs.append(("chunks-hole", "tile %s absent after sampling all chunks although the map defines %d of its pixels" % (p, int((~np.isnan(ref)).sum()))))
                continue
            lost = np.isnan(got) & ~np.isnan(ref)
            if lost.any():
                probs.append(("chunks-hole", "tile %s: %d pixels undefined after sampling all chunks although the map defines them" % (p, int(lost.sum()))))
            got = np.nan_to_num(got, nan=0.0).astype(np.int64)
            ref = np.nan_to_num(ref, nan=0.0).astype(np.int64)
            got = np.where(ref == 0, 0, got)
        if got is None:
            probs.append(("chunks-hole", "tile %s absent after sampling all chunks" % (p,)))
            continue
        if idmap.dtype.kind != "f" and (got == 0).any():
            probs.append(("chunks-hole", "tile %s: %d pixels undefined after sampling all chunks" % (p, int((got == 0).sum()))))
        d = (got != ref) & (got != 0)
        if d.any():
            # accept the other adjacent cell where the map coordinate is within 1e-9 cell of a boundary
            u = (np.remainder(lon + math.pi, TWOPI)) / TWOPI * W
            v = (math.pi / 2 - lat) / math.pi * H
            tie = (np.abs(u - np.round(u)) < 1e-9 * W) | (np.abs(v - np.round(v)) < 1e-9 * H)
            gy, gx = (got - 1) // W, (got - 1) % W
            ry, rx = (ref - 1) // W, (ref - 1) % W
            adj = (np.abs(gy - ry) <= 1) & ((np.abs(gx - rx) <= 1) | (np.abs(gx - rx) == W - 1))
            bad = d & ~(tie & adj)
            ties += int((d & tie & adj).sum())
            if bad.any():
                yy, xx = np.argwhere(bad)[0]
                probs.append(("chunks-differ", "tile %s: %d pixels differ from whole-map sampling (first row %d col %d: chunks %d, whole map %d)" % (p, int(bad.sum()), yy, xx, got[yy, xx], ref[yy, xx])))
    r = dict(counters=dict(chunk_sampling_comparisons=1, chunk_sampling_tiles=n, boundary_ties_accepted=ties, chunk_read_errors_reported=n_io), nontrivial=True, sample=dict(spec=spec, map=[H, W], chunk=[cw, ch]))
    return _fin(r, probs)


def case_fits_tiler(spec, workdir):
    """tile_fits(..., TOAST) of SEVERAL images far apart on the sky: the footprint filter handed to the cascade is the union of
    the images' filters - every tile that holds data at the deepest level has all its ancestors in the pyramid"""
    import toasty
    from toasty import TilingMethod

    from vlib import fitsgen, instr_mp

    R = random.Random(spec["seed"])
    rng = np.random.default_rng(spec["seed"])
    ind = os.path.join(workdir, "in")
    os.makedirs(ind)
    paths = []
    ra0, dec0 = R.uniform(0, 360), R.uniform(-40, 40)
    for i in range(spec["n"]):
        m = rng.normal(size=(60, 80)).astype(np.float32) + 5
        cv = ((ra0 + 70.0 * i + R.uniform(-5, 5)) % 360, max(-70, min(70, dec0 + R.uniform(-25, 25))))
        paths.append(fitsgen.write_piece(os.path.join(ind, "im%d.fits" % i), m, (0, 0, 80, 60), (40, 30), scale=R.choice([0.05, 0.03]), crval=cv, bottoms_up=bool(i % 2),
                                         rot=R.choice([None, 30, 200])))
    out = os.path.join(workdir, "out")
    instr_mp.install("natural", spec["seed"])
    toasty.tile_fits(paths, out_dir=out, parallel=spec["par"], override=True, tiling_method=TilingMethod.TOAST)
    tiles = tilegen.list_tiles(out, "fits")
    probs = []
    if not tiles:
        return dict(status="inconclusive", detail="tile_fits wrote no tiles")
    L = max(p[0] for p in tiles)
    n = 0
    for p in sorted(t for t in tiles if t[0] == L):
        a = tilegen.read_tile(out, p, "fits")
        if a is None or not np.isfinite(a).any():
            continue
        n += 1
        for q in ancestors(p) + [(0, 0, 0)]:
            if q not in tiles:
                probs.append(("collection-filter-false-negative", "tile %s holds data of the collection, but its ancestor %s is not in the pyramid (%d input images)" % (p, q, spec["n"])))
                break
        if len(probs) > 4:
            break
    if L < 3:
        return dict(status="inconclusive", detail="the collection was tiled at depth %d only: no ancestors to speak of" % L)
    r = dict(counters=dict(fits_tiler_collections=1, fits_tiler_data_tiles=n, max_fits_tiler_depth=L), nontrivial=n > 0 and spec["n"] >= 2, sample=dict(spec=spec, deepest=L, tiles=len(tiles)))
    return _fin(r, probs)


def _fin(r, probs):
    if probs:
        keys = sorted({k for k, _ in probs})
        r.update(status="violation", key="+".join(keys)[:140], detail="; ".join(t for _, t in probs[:5]))
    return r


def run_case(spec, workdir):
    t = spec["t"]
    if t == "box":
        return case_box(spec)
    if t == "pin":
        return case_pin(spec)
    if t == "wcs":
        return case_wcs(spec)
    if t == "chunk":
        return case_chunk(spec)
    if t == "sampling":
        return case_sampling(spec, workdir)
    if t == "fits_tiler":
        return case_fits_tiler(spec, workdir)
    return case_chunks_all(spec, workdir)


def finish(agg, tier):
    c = agg["counters"]
    need = dict(box_must_accept=500, pin_must_accept=300, wcs_must_accept=100, wcs_small_axis_must_accept=30, chunk_must_accept=100, sampling_comparisons=2, chunk_sampling_comparisons=1)
    miss = {k: c.get(k, 0) for k, v in need.items() if c.get(k, 0) < v}
    if miss:
        return dict(inconclusive="deciding monitors not sufficiently reached: %s" % miss)
    return {}
