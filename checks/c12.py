"""C12: point lookup returns the tile and pixel that actually contain the point."""
import math
import random

import numpy as np

from vlib import coherence
from vlib import ref_toast as rt

PROPERTY = "C12"
LEVEL = "exploration"
OPTIMIZED_SAMPLE = (6, 40)  # cases repeated under python -O (quick, thorough)
JOBS = 16
CASE_TIMEOUT = 600
RULE = (
    "one case = a block of points for one coordinate system. 'tile' blocks: for each point toast_tile_for_point at depths 0..D; oracle: the "
    "point lies inside the REFERENCE tile of the returned position (signed great-circle distance to the four edges >= -1e-9 rad), returned "
    "corners/orientation equal create_single_tile(pos), pos_parent(tile(d+1)) == tile(d), lookups at lon+2*pi*k give the same tile or one "
    "that also contains the point. 'pixel' blocks: toast_pixel_for_point; oracle: max(|x-ix|,|y-iy|) <= 2 where (iy,ix) is the pixel of the "
    "returned tile nearest to the point in angular distance, for |lat| <= 89 deg. Point generators: uniform on the sphere, polar caps, "
    "structure points (tile corners, edge midpoints, pixel centres, equator diamond, lon in {0,pi/2,pi,3pi/2,2pi}, poles), each also shifted "
    "by multiples of 2*pi. Non-trivial: a point checked at depth >= 2; distinct by (cs, point)."
    ' Also: 60-step tracks at one depth (steps of 0.05-0.4 tile widths), back-to-back pixel lookups of positions nanoradians apart at d'
    'epths 12-24, lookups from four concurrent threads.'
    ' Round 8: raw longitudes within 5e-324..9e-16 of multiples of 2pi.'
    " Round 9: 'interrupt' cases - each in an interpreter of its own: its first lookup and later ones are cut short by an asynchronous exception at the k-th function entered in toast.py, repeated, and followed by ordinary lookups."
)
ASSUMPTIONS = ["reference TOAST subdivision follows the documentation", "compiled extension as built; .pyx coherent with .c"]


def precheck():
    return coherence.check()


def cases(tier, seed):
    R = random.Random("c12/%d" % seed)
    out = []
    nb = 16 if tier == "quick" else 320
    for cs in ("astronomical", "planetary"):
        for i in range(nb):
            out.append(dict(t="tile", cs=cs, gen=["uniform", "polar", "structure", "structure"][i % 4], n=30 if tier == "quick" else 60,
                            D=R.choice([5, 8, 12, 16, 20]) if tier == "quick" else R.choice([6, 8, 12, 16, 20, 24]), seed=R.randrange(1 << 30)))
        for i in range(6 if tier == "quick" else 100):
            out.append(dict(t="track", cs=cs, D=[1, 3, 6, 10, 16, 22][i % 6], steps=60, ntracks=4 if tier == "quick" else 8, seed=R.randrange(1 << 30)))
        for i in range(4 if tier == "quick" else 60):
            out.append(dict(t="pairs", cs=cs, n=10 if tier == "quick" else 25, seed=R.randrange(1 << 30)))
        for i in range(8 if tier == "quick" else 160):
            out.append(dict(t="pixel", cs=cs, gen=["uniform", "polar89", "structure", "branch"][i % 4], n=14 if tier == "quick" else 25, seed=R.randrange(1 << 30)))
        # interrupted lookups; each case runs in an interpreter of its own, so that its first lookup is the process's first
        for i in range(5 if tier == "quick" else 40):
            out.append(dict(t="interrupt", cs=cs, k=[1, 3, 10, 60, 400, 30, 150][i % 7], D=8, seed=R.randrange(1 << 30), _env={"VERIF_FRESH_INTERPRETER": "1"}))
    return out


def gen_points(R, gen, n, pl):
    """list of (lon, lat)"""
    pts = []
    H = math.pi / 2
    while len(pts) < n:
        if gen == "uniform":
            z = R.uniform(-1, 1)
            pts.append((R.uniform(0, 2 * math.pi), math.asin(z)))
        elif gen == "polar":
            s = R.choice([-1, 1])
            pts.append((R.uniform(0, 2 * math.pi), s * (H - R.choice([0.0, 1e-12, 1e-6, 1e-3, 0.0175, 0.02, 0.05]) * R.uniform(0.5, 1))))
        elif gen == "polar89":
            s = R.choice([-1, 1])
            pts.append((R.uniform(0, 2 * math.pi), s * math.radians(R.uniform(80, 89))))
        elif gen == "branch":
            # longitudes close to 0 / 2pi and in the 3pi/2..2pi quadrant, where tile longitudes sit on another branch
            pts.append((R.choice([R.uniform(4.8, 6.28), R.uniform(0, 0.05), 2 * math.pi - R.uniform(0, 0.05)]), math.asin(R.uniform(-0.98, 0.98))))
        else:
            k = R.randrange(8)
            if k == 7:
                # raw, un-normalised longitudes a rounding error away from a multiple of 2pi (what arctan2(-1e-17, 1), an
                # accumulated hour angle or a subtraction of two nearly equal angles produce): `lon % 2pi` of a tiny
                # negative number IS 2pi in floating point
                tp = 2 * math.pi
                m = R.choice([0.0, 0.0, tp, -tp, 2 * tp, H, math.pi])
                off = R.choice([-5e-324, -1e-300, -1e-17, -1e-16, -4.4e-16, -8.9e-16, 5e-324, 1e-17, 4.4e-16])
                lo = m + off if m else off
                if m and lo == m:
                    lo = math.nextafter(m, -math.inf if off < 0 else math.inf)
                pts.append((lo, math.asin(R.uniform(-0.99, 0.99)) if R.random() < 0.8 else 0.0))
            elif k == 0:
                m = R.choice([0.0, H, math.pi, 3 * H, 2 * math.pi])
                off = R.choice([0.0, 0.0, 1e-12, 1e-6, 1e-3, 0.02]) * R.choice([-1, 1])
                pts.append(((m + off) % (2 * math.pi) if off else m, math.asin(R.uniform(-1, 1))))
            elif k == 1:
                pts.append((R.uniform(0, 2 * math.pi), 0.0))
            elif k == 2:
                pts.append((R.choice([0.0, 1.0, math.pi]), R.choice([H, -H])))
            else:
                d = R.randrange(1, 8)
                p = (d, R.randrange(1 << d), R.randrange(1 << d))
                c, inc = rt.tile_corners(p, pl)
                if k == 3:
                    v = c[R.randrange(4)]
                elif k == 4:
                    a = R.randrange(4)
                    v = rt.unit(c[a] + c[(a + 1) % 4])
                elif k == 5:
                    v = rt.pixel_centres(c, inc, levels=4)[R.randrange(16), R.randrange(16)]
                else:
                    v = rt.tile_centre(c, inc)
                lo, la = rt.lonlat(v)
                pts.append((float(lo) % (2 * math.pi), float(la)))
    return pts


def case_tile(spec):
    from toasty import toast
    from toasty.pyramid import pos_parent
    from toasty.toast import ToastCoordinateSystem as CS

    pl = spec["cs"] == "planetary"
    cs = CS.PLANETARY if pl else CS.ASTRONOMICAL
    R = random.Random(spec["seed"])
    probs = []
    keys = set()
    nl = 0
    pts = gen_points(R, spec["gen"], spec["n"], pl)
    for (lon, lat) in pts:
        P = rt.xyz(lon, lat)
        prev = None
        for d in range(0, spec["D"] + 1):
            t = toast.toast_tile_for_point(d, lat, lon, coordsys=cs)
            nl += 1
            pos = tuple(int(v) for v in t.pos)
            if pos[0] != d:
                probs.append("depth %d lookup returned %s" % (d, pos))
                keys.add("wrong-depth")
                break
            if d >= 1:
                rc, rinc = rt.tile_corners(pos, pl)
                sd = float(rt.signed_edge_distances(rc, P).min())
                if sd < -1e-9:
                    probs.append("(lon=%.12g, lat=%.12g) depth %d: returned tile %s does not contain the point (%.3g rad outside)" % (lon, lat, d, pos, -sd))
                    keys.add("not-contained:" + spec["cs"])
                    break
                t2 = toast.create_single_tile(t.pos, coordsys=cs)
                if np.abs(rt.corners_to_xyz(t.corners) - rt.corners_to_xyz(t2.corners)).max() > 1e-12 or bool(t.increasing) != bool(t2.increasing):
                    probs.append("depth %d: returned corners/orientation differ from create_single_tile%s" % (d, pos))
                    keys.add("corners-differ")
                if prev is not None and tuple(pos_parent(t.pos)[0]) != prev:
                    probs.append("(lon=%.12g, lat=%.12g): tile at depth %d %s is not a child of the tile at depth %d %s" % (lon, lat, d, pos, d - 1, prev))
                    keys.add("not-nested")
            prev = pos
        # the same point in the other coordinate system, in this same process (nothing remembered per point or per
        # position may leak from one system into the other)
        ocs = CS.ASTRONOMICAL if pl else CS.PLANETARY
        to = toast.toast_tile_for_point(spec["D"], lat, lon, coordsys=ocs)
        nl += 1
        orc, _ = rt.tile_corners(tuple(int(v) for v in to.pos), not pl)
        if float(rt.signed_edge_distances(orc, P).min()) < -1e-9:
            probs.append("(lon=%.12g, lat=%.12g) depth %d in the other coordinate system (same process): returned tile %s does not contain the point" % (lon, lat, spec["D"], tuple(to.pos)))
            keys.add("not-contained:" + ("astronomical" if pl else "planetary"))
        tb = toast.toast_tile_for_point(spec["D"], lat, lon, coordsys=cs)
        if tuple(tb.pos) != prev:
            probs.append("(lon=%.12g, lat=%.12g): repeating the lookup after a lookup in the other coordinate system gives %s instead of %s" % (lon, lat, tuple(tb.pos), prev))
            keys.add("not-repeatable")
        # periodicity at the deepest depth
        d = spec["D"]
        base = toast.toast_tile_for_point(d, lat, lon, coordsys=cs)
        for k in (R.choice([-3, -2, -1]), R.choice([1, 2, 3])):
            t = toast.toast_tile_for_point(d, lat, lon + 2 * math.pi * k, coordsys=cs)
            nl += 1
            if tuple(t.pos) != tuple(base.pos):
                rc, _ = rt.tile_corners(tuple(int(v) for v in t.pos), pl)
                if float(rt.signed_edge_distances(rc, P).min()) < -1e-9:
                    probs.append("(lon=%.12g%+d*2pi, lat=%.12g): tile %s differs from %s and does not contain the point" % (lon, k, lat, tuple(t.pos), tuple(base.pos)))
                    keys.add("not-periodic")
        if len(probs) > 10:
            break
    r = dict(counters=dict(tile_lookups=nl, points=len(pts), **{"points_" + spec["gen"]: len(pts)}), nontrivial=spec["D"] >= 2,
             sample=dict(spec=spec, first_points=pts[:3]))
    if probs:
        r.update(status="violation", key="+".join(sorted(keys)), detail="; ".join(probs[:6]))
    return r


def case_track(spec):
    """consecutive lookups at ONE depth of points that move by a fraction of a tile per step (a track, a raster scan, a sorted
    catalogue): every answer must contain its own point, whatever was looked up just before"""
    from toasty import toast
    from toasty.toast import ToastCoordinateSystem as CS

    pl = spec["cs"] == "planetary"
    cs = CS.PLANETARY if pl else CS.ASTRONOMICAL
    R = random.Random(spec["seed"])
    D = spec["D"]
    width = (math.pi / 2) / (1 << D)
    probs = []
    n = crossings = 0
    for _ in range(spec["ntracks"]):
        lon, lat = R.uniform(0, 2 * math.pi), math.asin(R.uniform(-0.9, 0.9))
        if R.random() < 0.3:
            lon = R.choice([0.0, math.pi / 2, math.pi, 2 * math.pi]) - 3 * width * R.random()  # towards a seam / face edge
        ang = R.uniform(0, 2 * math.pi)
        step = width * R.choice([0.05, 0.15, 0.4])
        prev = None
        for i in range(spec["steps"]):
            lo, la = lon + i * step * math.cos(ang) / max(0.2, math.cos(lat)), max(-1.55, min(1.55, lat + i * step * math.sin(ang)))
            t = toast.toast_tile_for_point(D, la, lo % (2 * math.pi), coordsys=cs)
            n += 1
            pos = tuple(int(v) for v in t.pos)
            crossings += int(prev is not None and pos != prev)
            prev = pos
            rc, _ = rt.tile_corners(pos, pl)
            sd = float(rt.signed_edge_distances(rc, rt.xyz(lo, la)).min())
            if sd < -1e-9:
                probs.append("track step %d (lon=%.12g, lat=%.12g) depth %d: returned tile %s does not contain the point (%.3g tile widths outside)" % (i, lo, la, D, pos, -sd / width))
                break
        if len(probs) > 4:
            break
    r = dict(counters=dict(track_lookups=n, track_tile_changes=crossings), nontrivial=crossings > 0, sample=dict(spec=spec))
    if probs:
        r.update(status="violation", key="not-contained:track:" + spec["cs"], detail="; ".join(probs[:4]))
    return r


def case_pairs(spec):
    """pixel lookups, back to back, of DISTINCT positions a few nanoradians apart, at depths where that is many pixels"""
    from toasty import toast
    from toasty.toast import ToastCoordinateSystem as CS

    pl = spec["cs"] == "planetary"
    cs = CS.PLANETARY if pl else CS.ASTRONOMICAL
    R = random.Random(spec["seed"])
    probs = []
    n = 0
    for _ in range(spec["n"]):
        d = R.choice([12, 18, 21, 22, 24])
        lon, lat = R.uniform(0.1, 6.1), math.asin(R.uniform(-0.8, 0.8))
        for (lo, la) in ((lon, lat), (lon + R.uniform(2e-9, 9e-9), lat + R.uniform(-9e-9, 9e-9)), (lon - R.uniform(1e-10, 4e-9), lat)):
            tile, x, y = toast.toast_pixel_for_point(d, la, lo, coordsys=cs)
            n += 1
            glon, glat = toast.toast_tile_get_coords(tile)
            # nearest pixel centre, with the tile's own grid as origin to keep nanoradian differences exact
            dl = (glon - lo + math.pi) % (2 * math.pi) - math.pi
            dist = (dl * math.cos(la)) ** 2 + (glat - la) ** 2
            iy, ix = np.unravel_index(np.argmin(dist), dist.shape)
            err = max(abs(x - ix), abs(y - iy))
            if not np.isfinite(err) or err > 2:
                probs.append("(lon=%.17g, lat=%.17g) depth %d: returned pixel (x=%.2f, y=%.2f) of tile %s, nearest pixel centre is (x=%d, y=%d)" % (lo, la, d, x, y, tuple(tile.pos), ix, iy))
        if len(probs) > 4:
            break
    # the least-squares solver fails now and then (SVD did not converge): a pixel lookup may then raise, but an answer it
    # does return must still be right
    real_lstsq = np.linalg.lstsq
    calls = [0]

    def flaky_lstsq(*a, **k):
        calls[0] += 1
        if calls[0] % 3 == 0:
            raise np.linalg.LinAlgError("SVD did not converge (injected)")
        return real_lstsq(*a, **k)

    np.linalg.lstsq = flaky_lstsq
    try:
        for _ in range(6):
            d = R.choice([3, 6, 10])
            lo, la = R.uniform(0.1, 6.1), math.asin(R.uniform(-0.8, 0.8))
            try:
                tile, x, y = toast.toast_pixel_for_point(d, la, lo, coordsys=cs)
            except np.linalg.LinAlgError:
                continue
            n += 1
            glon, glat = toast.toast_tile_get_coords(tile)
            dl = (glon - lo + math.pi) % (2 * math.pi) - math.pi
            dist = (dl * math.cos(la)) ** 2 + (glat - la) ** 2
            iy, ix = np.unravel_index(np.argmin(dist), dist.shape)
            if max(abs(x - ix), abs(y - iy)) > 2:
                probs.append("with a solver that fails now and then, (lon=%.10g, lat=%.10g) depth %d returned pixel (x=%.2f, y=%.2f); nearest pixel centre is (x=%d, y=%d)" % (lo, la, d, x, y, ix, iy))
    finally:
        np.linalg.lstsq = real_lstsq
    # the same position given in other numeric types (Python int, numpy scalars, float32 where exactly representable)
    for la_i, lo_i in ((0, 1), (1, 2), (-1, 4), (0, 0), (np.int64(0), np.float64(2.5)), (np.float32(0.5), np.float32(1.5)), (1, np.int64(3))):
        for d in (2, 5, 9):
            ta = tuple(toast.toast_tile_for_point(d, la_i, lo_i, coordsys=cs).pos)
            tb = tuple(toast.toast_tile_for_point(d, float(la_i), float(lo_i), coordsys=cs).pos)
            n += 2
            if ta != tb:
                c4, _ = rt.tile_corners(tuple(int(v) for v in ta), pl)
                if float(rt.signed_edge_distances(c4, rt.xyz(float(lo_i), float(la_i))).min()) < -1e-9:
                    probs.append("lookup of (lon=%r, lat=%r) given as %s/%s at depth %d returns %s, which does not contain the point (as floats: %s)" % (
                        lo_i, la_i, type(lo_i).__name__, type(la_i).__name__, d, ta, tb))
    # the same lookups made concurrently from four threads must give what they give one after the other
    from vlib import threads

    pts = [(R.choice([2, 5, 9, 14]), R.uniform(0.1, 6.1), math.asin(R.uniform(-0.8, 0.8))) for _ in range(12)]

    def pix(d, lo, la):
        t, x, y = toast.toast_pixel_for_point(d, la, lo, coordsys=cs)
        return (tuple(t.pos), float(x), float(y))

    def til(d, lo, la):
        return tuple(toast.toast_tile_for_point(d, la, lo, coordsys=cs).pos)

    calls = [(lambda a=a: pix(*a)) for a in pts] + [(lambda a=a: til(*a)) for a in pts]
    same = lambda a, b: a == b if not isinstance(a[0], tuple) else (a[0] == b[0] and abs(a[1] - b[1]) < 1e-6 and abs(a[2] - b[2]) < 1e-6)
    ncalls, bad = threads.concurrent_vs_serial(calls, same, nthreads=4, rounds=2, seed=spec["seed"], budget_s=3.0)
    if bad:
        probs.append("%d of %d point lookups made concurrently from 4 threads differ from the same lookups made serially" % (len(bad), ncalls))
    r = dict(counters=dict(pair_lookups=n, lookups_from_threads=ncalls), nontrivial=True, sample=dict(spec=spec))
    if probs:
        r.update(status="violation", key="pixel-fit:nearby-positions" if not bad else "lookup-not-reentrant", detail="; ".join(probs[:4]))
    return r


def case_pixel(spec):
    from toasty import toast
    from toasty.toast import ToastCoordinateSystem as CS

    pl = spec["cs"] == "planetary"
    cs = CS.PLANETARY if pl else CS.ASTRONOMICAL
    R = random.Random(spec["seed"])
    probs = []
    keys = set()
    n = 0
    worst = 0.0
    pts = [p for p in gen_points(R, spec["gen"], spec["n"] * 2, pl) if abs(p[1]) <= math.radians(89)][: spec["n"]]
    for (lon, lat) in pts:
        d = R.choice([1, 2, 3, 5, 8])
        k = R.choice([0, 0, 0, -1, 1, 2])
        tile, x, y = toast.toast_pixel_for_point(d, lat, lon + 2 * math.pi * k, coordsys=cs)
        n += 1
        glon, glat = toast.toast_tile_get_coords(tile)
        G = rt.xyz(glon, glat)
        P = rt.xyz(lon, lat)
        dots = G @ P
        iy, ix = np.unravel_index(np.argmax(dots), dots.shape)
        err = max(abs(x - ix), abs(y - iy))
        if not np.isfinite(err) or err > 2:
            # classify: is the tile itself wrong, or only the fit?
            rc, _ = rt.tile_corners(tuple(int(v) for v in tile.pos), pl)
            inside = float(rt.signed_edge_distances(rc, P).min()) >= -1e-9
            branch = bool(np.abs(glon - (lon + 2 * math.pi * k)).min() > math.pi)
            key = "pixel-fit" + (":tile-wrong" if not inside else "") + (":lon-branch" if branch else "")
            keys.add(key)
            probs.append("(lon=%.10g%+d*2pi, lat=%.10g) depth %d %s: returned pixel (x=%.2f, y=%.2f), nearest pixel centre is (x=%d, y=%d)%s" % (
                lon, k, lat, d, spec["cs"], x, y, ix, iy, "; tile longitudes are on another 2pi branch than the query" if branch else ""))
        else:
            worst = max(worst, err)
        # back to back, the point rotated by 180 degrees in the OTHER coordinate system: it has the same tile address
        # (n, x, y); nothing remembered per address may be reused across coordinate systems
        ocs = CS.ASTRONOMICAL if pl else CS.PLANETARY
        t2, x2, y2 = toast.toast_pixel_for_point(d, lat, lon + math.pi, coordsys=ocs)
        n += 1
        if tuple(t2.pos) == tuple(tile.pos):
            g2lon, g2lat = toast.toast_tile_get_coords(toast.create_single_tile(t2.pos, coordsys=ocs))
            dots2 = rt.xyz(g2lon, g2lat) @ rt.xyz(lon + math.pi, lat)
            jy, jx = np.unravel_index(np.argmax(dots2), dots2.shape)
            e2 = max(abs(x2 - jx), abs(y2 - jy))
            if not np.isfinite(e2) or e2 > 2:
                keys.add("pixel-fit:after-lookup-in-other-coordinate-system")
                probs.append("(lon=%.10g, lat=%.10g) depth %d: lookup in the %s system right after the same tile address %s was looked up in the other system returned pixel (x=%.2f, y=%.2f), nearest pixel centre is (x=%d, y=%d)" % (
                    lon + math.pi, lat, d, "astronomical" if pl else "planetary", tuple(t2.pos), x2, y2, jx, jy))
        if len(probs) > 8:
            break
    r = dict(counters=dict(pixel_lookups=n, **{"pixel_points_" + spec["gen"]: len(pts)}), nontrivial=True, sample=dict(spec=spec, worst_error_px=worst))
    if probs:
        r.update(status="violation", key="+".join(sorted(keys)), detail="; ".join(probs[:6]))
    return r


def case_interrupt(spec):
    """lookups that are cut short by an asynchronous exception (Ctrl-C, a raising timeout handler) - among them the very FIRST
    lookup of a fresh interpreter - followed by ordinary lookups, which are judged as in the 'tile' cases"""
    from toasty import toast
    from toasty.toast import ToastCoordinateSystem as CS

    from vlib import interrupt

    pl = spec["cs"] == "planetary"
    cs = CS.PLANETARY if pl else CS.ASTRONOMICAL
    R = random.Random(spec["seed"])
    n_int = 0
    for rnd in range(6):
        lon, lat = R.uniform(0, 2 * math.pi), math.asin(R.uniform(-0.98, 0.98))
        d = R.choice([3, 5, 7, 9])
        k = R.choice([1, 2, 3, 5, 8, 13, 40, 150, 600]) if rnd else spec["k"]
        if interrupt.interrupted(lambda: toast.toast_tile_for_point(d, lat, lon, coordsys=cs), k):
            n_int += 1
        if rnd % 2:
            # the interrupted lookup is repeated as it is
            t = toast.toast_tile_for_point(d, lat, lon, coordsys=cs)
            c, _ = rt.tile_corners(tuple(int(v) for v in t.pos), pl)
            sd = float(rt.signed_edge_distances(c, rt.xyz(lon, lat)).min())
            if sd < -1e-9:
                return dict(status="violation", key="not-contained:after-interrupted-lookup", counters=dict(interrupted_lookups=n_int),
                            detail="%s: a lookup of (lon=%.12g, lat=%.12g) at depth %d was interrupted (call #%d) and repeated: the answer %s does not contain the point (%.3g rad outside)" % (
                                spec["cs"], lon, lat, d, k, tuple(t.pos), -sd))
    r = case_tile(dict(spec, t="tile", gen="uniform", n=20, D=spec.get("D", 8)))
    r.setdefault("counters", {})["interrupted_lookups"] = n_int
    if r.get("status") == "violation":
        r["key"] = r["key"] + ":after-interrupted-lookup"
    return r


def run_case(spec, workdir):
    if spec["t"] == "interrupt":
        return case_interrupt(spec)
    return dict(tile=case_tile, pixel=case_pixel, track=case_track, pairs=case_pairs)[spec["t"]](spec)


def finish(agg, tier):
    c = agg["counters"]
    if c.get("tile_lookups", 0) < 3000 or c.get("pixel_lookups", 0) < 150:
        return dict(inconclusive="too few lookups: %s" % c)
    return {}
