"""C14: FITS pyramids carry the leaves' true data range up to the root and the WTML."""
import collections
import os
import random
import xml.etree.ElementTree as ET

import numpy as np

from vlib import evlog, instr_mp, models, tilegen
from vlib import ref_quadtree as rq

PROPERTY = "C14"
LEVEL = "exploration"
OPTIMIZED_SAMPLE = (6, 60)  # cases repeated under python -O (quick, thorough)
JOBS = 14
CASE_TIMEOUT = 400
RULE = (
    "one case = one FITS leaf layer written BY toasty through one writer (PyramidIO.write_image, study tiling, TOAST sampling in clobber "
    "or update mode, multi-TAN tiling, tile_fits) with NaNs, all-NaN leaves, negative ranges, single finite pixels, in F32/F64/I16/I32, "
    "depth 1-4, sparse; cascaded with k in {1,4} through cascade_images or Builder.cascade + write_index_rel_wtml. Oracle: for every "
    "stored tile DATAMIN/DATAMAX (read with astropy) equal the min/max over the finite values of all LEAF arrays beneath it (rel 1e-6), "
    "and DataMin/DataMax of the ImageSet object and of index_rel.wtml equal the root's. Non-trivial: >= 2 levels above the leaves or >= 2 "
    "leaves with different ranges; distinct by spec."
    ' Also: a second cascade after new leaves arrived, after the extreme leaf was withdrawn, replaced by an older-dated file or updated'
    ' in place (same or restored Builder); depth-0 pyramids; statement-boundary delays in a quarter of the parallel cascades.'
    ' Round 8: every tile_fits case calls tile_fits again on the finished directory and rewrites the WTML from the returned description.'
    ' Round 9: leaf values near the top of and (F64) far beyond the single-precision range.'
)
ASSUMPTIONS = ["leaf data are read back from the leaf FITS files with astropy", "single-precision rounding: relative 1e-6"]
DT = dict(F32=np.float32, F64=np.float64, I16=np.int16, I32=np.int32)


def cases(tier, seed):
    R = random.Random("c14/%d" % seed)
    out = []
    n = 44 if tier == "quick" else 2000
    writers = ["write_image", "write_image", "study", "sample_clobber", "sample_update", "multi_tan", "write_image_int"]
    for i in range(n):
        w = writers[i % len(writers)]
        out.append(dict(writer=w, depth=R.choice([1, 2, 2, 3] if tier == "quick" else [1, 2, 3, 4]), mode=R.choice(["F32", "F64"]) if w != "write_image_int" else R.choice(["I16", "I32"]),
                        par=R.choice([1, 4]), via=R.choice(["cascade_images", "builder"]), seed=R.randrange(1 << 30), fill=R.choice([0.2, 0.5, 1.0])))
    for i in range(12 if tier == "quick" else 160):
        out.append(dict(writer="write_image", depth=R.choice([1, 2, 3]), mode=R.choice(["F32", "F64", "I16"]), par=R.choice([1, 2]), via="builder", seed=R.randrange(1 << 30), fill=0.4,
                        second_round=R.choice(["same_builder", "restored_builder"]), mods=R.sample(["remove_extreme", "replace_older", "update"], R.choice([0, 1, 2]))))
    for i in range(3 if tier == "quick" else 30):
        out.append(dict(writer="tile_fits", depth=0, mode="F32", par=R.choice([1, 2]), via="tile_fits", seed=R.randrange(1 << 30), fill=1.0, tan=(i % 3 != 2)))
    for i in range(4 if tier == "quick" else 40):
        out.append(dict(writer="write_image", depth=R.choice([2, 3]), mode=R.choice(["F32", "F64"]), par=[1, 2, 4, 1][i % 4], via="cascade_images", seed=R.randrange(1 << 30), fill=0.6, io_read_fault=True))
    # pyramids of depth 0: an image of at most 256x256 pixels, whose only tile is leaf and root at once
    for i in range(4 if tier == "quick" else 30):
        out.append(dict(writer="study", depth=0, mode=R.choice(["F32", "F64"]), par=R.choice([1, 2]), via="builder", seed=R.randrange(1 << 30), fill=1.0))
        out.append(dict(writer="tile_fits", depth=0, mode="F32", par=R.choice([1, 2]), via="tile_fits", seed=R.randrange(1 << 30), fill=1.0, tan=True, small=True))
    return out


def leaf_array(rng, mode, R):
    dt = DT[mode]
    kind = R.choice(["normal", "negative", "single", "nanrows", "allnan", "wide", "tiny", "clipped0", "nonpositive0", "zeros", "huge"])
    if np.dtype(dt).kind == "i":
        a = rng.integers(1, 20000, (256, 256)).astype(dt)
        if kind == "single":
            a[:] = 0
            a[rng.integers(256), rng.integers(256)] = rng.integers(5, 1000)
        return a
    a = rng.normal(size=(256, 256)).astype(dt)
    if kind == "negative":
        a = (-np.abs(a) - rng.uniform(1, 100)).astype(dt)
    elif kind == "single":
        v = a[0, 0]
        a[:] = np.nan
        a[rng.integers(256), rng.integers(256)] = v * rng.choice([1, 1e3, -1e3])
    elif kind == "nanrows":
        a[rng.integers(0, 256, 100)] = np.nan
    elif kind == "allnan":
        a[:] = np.nan
    elif kind == "clipped0":
        a = np.maximum(a, 0).astype(dt)  # minimum exactly 0.0
    elif kind == "nonpositive0":
        a = np.minimum(a, 0).astype(dt)  # maximum exactly 0.0
    elif kind == "zeros":
        a[:] = 0.0
        a[rng.integers(0, 256, 30)] = np.nan
    elif kind == "wide":
        a = (a * 1e6 + 3e7).astype(dt)
    elif kind == "tiny":
        a = (a * 1e-6).astype(dt)
    elif kind == "huge":
        # magnitudes near the top of single precision, and - in double-precision pyramids - far beyond it
        a = (a * (10.0 ** R.choice([37.8, 39.0, 120.0, 300.0]) if mode == "F64" else 1e37)).astype(dt)
    return a


def write_leaves(spec, base, R, rng):
    """writes the leaf layer through toasty; returns (depth, builder or None)"""
    from toasty import toast
    from toasty.builder import Builder
    from toasty.image import Image
    from toasty.pyramid import Pos, PyramidIO

    pio = PyramidIO(base, default_format="fits")
    b = Builder(pio)
    w = spec["writer"]
    depth = spec["depth"]
    if w in ("write_image", "write_image_int"):
        for p in rq.all_positions(depth, depth):
            if R.random() < spec["fill"]:
                a = leaf_array(rng, spec["mode"], R)
                pio.write_image(Pos(*p), Image.from_array(a, default_format="fits"))
        b.imgset.tile_levels = depth
    elif w == "study":
        size = R.choice([300, 600, 1100]) if depth >= 2 else (R.choice([300, 500]) if depth >= 1 else R.choice([120, 200, 256]))  # depth 0: the single leaf IS the root
        img = (rng.normal(size=(size - R.randrange(0, 90), size)) * R.choice([1, 1e4]) + R.choice([0, -50.0])).astype(DT[spec["mode"]])
        img[rng.random(img.shape) < 0.2] = np.nan
        img[: img.shape[0] // 3, : img.shape[1] // 2] = np.nan
        b.tile_base_as_study(Image.from_array(img, default_format="fits"))
        depth = b.imgset.tile_levels
    elif w in ("sample_clobber", "sample_update"):
        depth = min(depth, 2)
        amp = R.choice([1.0, 1e3])
        off = R.choice([0.0, -7.0])

        def sampler(lon, lat):
            v = (np.sin(3 * lon) * np.cos(2 * lat) * amp + off).astype(DT[spec["mode"]])
            v[np.cos(lon) > 0.6] = np.nan
            return v

        if w == "sample_clobber":
            toast.sample_layer(pio, sampler, depth, parallel=1, format="fits")
        else:
            toast.sample_layer_filtered(pio, lambda t: True, sampler, depth, parallel=1)

            def sampler2(lon, lat):
                v = np.full(lon.shape, np.nan, DT[spec["mode"]])
                m = np.cos(lon) > 0.8
                v[m] = (100.0 + lat[m]).astype(DT[spec["mode"]])
                return v

            toast.sample_layer_filtered(pio, lambda t: True, sampler2, depth, parallel=1)
        b.imgset.tile_levels = depth
    elif w == "multi_tan":
        from toasty.collection import SimpleFitsCollection
        from toasty.multi_tan import MultiTanProcessor

        from vlib import fitsgen

        W, H = R.randrange(400, 1100), R.randrange(300, 900)
        mosaic = (rng.normal(size=(H, W)) * 10).astype(np.float32)
        mosaic[rng.random(mosaic.shape) < 0.1] = np.nan
        rects = [(0, 0, W // 2 + 20, H), (W // 2 - 20, 0, W - (W // 2 - 20), H // 2), (W // 2, H // 2 - 10, W - W // 2, H - (H // 2 - 10))]
        ind = base + "-in"
        os.makedirs(ind)
        paths = [fitsgen.write_piece(os.path.join(ind, "p%d.fits" % i), mosaic, r, (W / 2.0, H / 2.0), bottoms_up=bool(i % 2) and False) for i, r in enumerate(rects)]
        proc = MultiTanProcessor(SimpleFitsCollection(paths))
        proc.compute_global_pixelization(b)
        proc.tile(pio, parallel=1)
        depth = b.imgset.tile_levels
    return depth, b, pio


def true_ranges(base, depth):
    """min/max over finite leaf values beneath every position, from the leaf files"""
    from astropy.io import fits

    rng_ = {}
    for p in tilegen.list_tiles(base, "fits"):
        if p[0] != depth:
            continue
        a = np.array(fits.getdata(os.path.join(base, tilegen.tile_relpath(p, "fits"))), dtype=np.float64)
        f = a[np.isfinite(a)]
        if f.size == 0:
            continue
        q = p
        while True:
            lo, hi = rng_.get(q, (np.inf, -np.inf))
            rng_[q] = (min(lo, f.min()), max(hi, f.max()))
            if q[0] == 0:
                break
            q = rq.parent(q)
    return rng_


def close(a, b):
    return abs(a - b) <= 1e-6 * max(abs(a), abs(b), 1e-300)


def run_case(spec, workdir):
    from astropy.io import fits

    R = random.Random(spec["seed"])
    rng = np.random.default_rng(spec["seed"])
    base = os.path.join(workdir, "pyr")
    probs = []
    if spec["writer"] == "tile_fits":
        return case_tile_fits(spec, workdir, R, rng)
    depth, b, pio = write_leaves(spec, base, R, rng)
    leaves = {p for p in tilegen.list_tiles(base, "fits") if p[0] == depth}
    if not leaves:
        return dict(status="held", nontrivial=False, counters=dict(empty_layers=1))
    tr = true_ranges(base, depth)
    # leaf headers themselves
    par = spec["par"]
    instr_mp.install("natural", spec["seed"])
    log = os.path.join(workdir, "log")
    evlog.open_log(log)
    if spec["via"] == "builder" and (0, 0, 0) in tr:
        fn = lambda: (b.cascade(parallel=par), b.write_index_rel_wtml())
    else:
        from toasty.merge import averaging_merger, cascade_images

        fn = lambda: cascade_images(pio, depth, averaging_merger, parallel=par)
    io_rec = None
    if spec.get("io_read_fault") and tr:
        # one leaf cannot be read for a while (EIO / ESTALE on a flaky file system, several attempts in a row): the cascade
        # must report it - a pyramid whose ranges silently lack that leaf is the violation
        import errno

        from vlib import sched

        lv = sorted(q for q in tr if q[0] == depth)
        fl = lv[spec["seed"] % len(lv)]
        rel = tilegen.tile_relpath(fl, "fits")
        io_rec = sched.failpoint("image.py", "load_path", lambda: OSError(R.choice([errno.EIO, errno.ESTALE, errno.EAGAIN]), "injected read error"), count=6,
                                 when=lambda L: str(L.get("path")).endswith(rel), on_fire=lambda: evlog.ev("fault_injected", pos=fl))
    if io_rec is not None:
        from vlib import sched

        try:
            if par > 1:
                outcome, info = models.run_stage(fn, log, "walk", watchdog=200)
            else:
                evlog.ev("stage_call")
                try:
                    fn()
                    outcome = "returned"
                except (OSError, RuntimeError):
                    outcome = "raised"
        finally:
            sched.clear_failpoints()
        fired = any(r["k"] == "fault_injected" for r in evlog.read(log))
        evlog.close_log()
        if outcome == "watchdog" or not fired:
            return dict(status="inconclusive", detail="read fault not reached / watchdog (%s)" % outcome)
        res = dict(counters=dict(pyramids=1, read_faults_injected=1, read_faults_reported=int(outcome == "raised")), nontrivial=True, sample=dict(spec=spec, failing_leaf=fl, outcome=outcome))
        if outcome != "raised":
            res.update(status="violation", key="data-range:read-error-swallowed", detail="leaf %s could not be read (6 attempts failed with an I/O error), yet the cascade ended as '%s': the ranges above it cannot include it" % (fl, outcome))
        return res
    if par > 1:
        outcome, info = models.run_stage(fn, log, "walk", watchdog=200, hostile=dict(seed=spec["seed"], p=0.03, files=("pyramid.py", "par_util.py", "merge.py"), lo=0.001, hi=0.06, budget=1.0) if spec["seed"] % 4 == 0 else None)
        if outcome == "returned" and spec["via"] == "builder" and (0, 0, 0) in tr:
            # the forked child's Builder is gone; redo the metadata step in this process (serial, idempotent on the tiles)
            b.cascade(parallel=1)
            b.write_index_rel_wtml()
    else:
        evlog.ev("stage_call")
        fn()
        evlog.ev("stage_ret")
        outcome = "returned"
    nsched = sum(1 for r in evlog.read(log) if r["k"] == "sched")
    evlog.close_log()
    if outcome == "watchdog":
        return dict(status="inconclusive", detail="watchdog")
    if outcome != "returned":
        return dict(status="violation", key="cascade-" + outcome, detail="cascade outcome %s" % outcome)
    n = 0
    for p in sorted(tilegen.list_tiles(base, "fits")):
        h = fits.getheader(os.path.join(base, tilegen.tile_relpath(p, "fits")))
        n += 1
        if p not in tr:
            if "DATAMIN" in h or "DATAMAX" in h:
                probs.append("tile %s has no finite leaf data beneath it but records DATAMIN/DATAMAX" % (p,))
            continue
        lo, hi = tr[p]
        if "DATAMIN" not in h or "DATAMAX" not in h:
            probs.append("tile %s lacks DATAMIN/DATAMAX" % (p,))
            continue
        if not close(h["DATAMIN"], lo) or not close(h["DATAMAX"], hi):
            probs.append("tile %s: DATAMIN/DATAMAX = %r/%r, leaves beneath span %r/%r" % (p, h["DATAMIN"], h["DATAMAX"], lo, hi))
    for p in tr:
        if not os.path.exists(os.path.join(base, tilegen.tile_relpath(p, "fits"))):
            probs.append("tile %s absent although finite leaf data lie beneath it" % (p,))
    wt = 0
    if spec["via"] == "builder" and (0, 0, 0) in tr:
        lo, hi = tr[(0, 0, 0)]
        if not close(b.imgset.data_min, lo) or not close(b.imgset.data_max, hi):
            probs.append("ImageSet.data_min/max = %r/%r, full-resolution range %r/%r" % (b.imgset.data_min, b.imgset.data_max, lo, hi))
        iset = next(ET.parse(os.path.join(base, "index_rel.wtml")).getroot().iter("ImageSet"))
        wlo, whi = float(iset.get("DataMin", 0.0)), float(iset.get("DataMax", 0.0))
        wt = 1
        if not close(wlo, lo) or not close(whi, hi):
            probs.append("WTML DataMin/DataMax = %r/%r, full-resolution range %r/%r" % (wlo, whi, lo, hi))
    if spec.get("second_round") and not probs and (0, 0, 0) in tr:
        # more data arrive (wider range), and the pyramid is cascaded again: by the same Builder object, or by a new one
        # whose description was restored from the index_rel.wtml written the first time
        from toasty.builder import Builder
        from toasty.image import Image
        from toasty.pyramid import Pos

        free = [p for p in rq.all_positions(depth, depth) if p not in leaves] or sorted(leaves)[:1]
        for p in free[:2]:
            dt = DT[spec["mode"]]
            a = (rng.normal(size=(256, 256)) * 50 + 4000).astype(dt) if np.dtype(dt).kind == "f" else rng.integers(25000, 32000, (256, 256)).astype(dt)
            if np.dtype(dt).kind == "f":
                a[0, 0] = -9000.5
            pio.write_image(Pos(*p), Image.from_array(a, default_format="fits"))
        mods = spec.get("mods") or []
        cur = true_ranges(base, depth)
        lv = sorted(q for q in cur if q[0] == depth)
        if "remove_extreme" in mods and len(lv) >= 2:
            # the leaf holding the maximum is withdrawn (its siblings stay): the range above it must shrink
            q = max(lv, key=lambda t: cur[t][1])
            os.unlink(os.path.join(base, tilegen.tile_relpath(q, "fits")))
            lv.remove(q)
        if "replace_older" in mods and lv:
            # the leaf holding the minimum is replaced by narrower data in a file whose timestamp is OLD (cp -p, rsync -a)
            q = min(lv, key=lambda t: cur[t][0])
            dt = DT[spec["mode"]]
            a = (np.full((256, 256), 3.0) + rng.random((256, 256))).astype(dt) if np.dtype(dt).kind == "f" else rng.integers(100, 200, (256, 256)).astype(dt)
            pio.write_image(Pos(*q), Image.from_array(a, default_format="fits"))
            os.utime(os.path.join(base, tilegen.tile_relpath(q, "fits")), (1.0e9, 1.0e9))
        if "update" in mods and lv:
            q = lv[len(lv) // 2]
            with pio.update_image(Pos(*q), masked_mode=Image.from_array(np.zeros((2, 2), DT[spec["mode"]])).mode, default="masked") as basis:
                arr = basis.asarray()
                arr[10:20, 10:20] = 77777 if arr.dtype.kind == "f" else 31000
        b2 = b
        if spec["second_round"] == "restored_builder":
            from wwt_data_formats.folder import Folder

            b2 = Builder(pio)
            item = Folder.from_file(os.path.join(base, "index_rel.wtml")).children[0]
            b2.place = item
            b2.imgset = item.foreground_image_set
        b2.cascade(parallel=1)
        b2.write_index_rel_wtml()
        tr = true_ranges(base, depth)
        lo, hi = tr[(0, 0, 0)]
        for p in sorted(tilegen.list_tiles(base, "fits")):
            h = fits.getheader(os.path.join(base, tilegen.tile_relpath(p, "fits")))
            if p in tr and (not close(h.get("DATAMIN", np.nan), tr[p][0]) or not close(h.get("DATAMAX", np.nan), tr[p][1])):
                probs.append("after the second cascade, tile %s: DATAMIN/DATAMAX = %r/%r, leaves beneath span %r/%r" % (p, h.get("DATAMIN"), h.get("DATAMAX"), tr[p][0], tr[p][1]))
        if not close(b2.imgset.data_min, lo) or not close(b2.imgset.data_max, hi):
            probs.append("after the second cascade (%s) ImageSet.data_min/max = %r/%r, full-resolution range %r/%r" % (spec["second_round"], b2.imgset.data_min, b2.imgset.data_max, lo, hi))
        iset = next(ET.parse(os.path.join(base, "index_rel.wtml")).getroot().iter("ImageSet"))
        if not close(float(iset.get("DataMin", 0.0)), lo) or not close(float(iset.get("DataMax", 0.0)), hi):
            probs.append("after the second cascade (%s) WTML DataMin/DataMax = %s/%s, full-resolution range %r/%r" % (spec["second_round"], iset.get("DataMin"), iset.get("DataMax"), lo, hi))
        wt += 1
    distinct_ranges = len({tr[p] for p in leaves if p in tr})
    res = dict(counters={"pyramids": 1, "headers_checked": n, "wtml_checked": wt, "writer_" + spec["writer"]: 1, "par_%d" % par: 1, "statement_delays": nsched},
               nontrivial=(depth >= 2 or distinct_ranges >= 2) and len(tr) >= 2,
               sample=dict(spec=spec, depth=depth, leaves=len(leaves), root_range=tr.get((0, 0, 0))))
    if probs:
        res.update(status="violation", key="data-range", detail="; ".join(probs[:6]))
    return res


def case_tile_fits(spec, workdir, R, rng):
    import toasty
    from astropy.io import fits

    from vlib import fitsgen

    W, H = (R.randrange(300, 900), R.randrange(300, 700)) if not spec.get("small") else (R.randrange(60, 257), R.randrange(60, 257))
    mosaic = (rng.normal(size=(H, W)) * 5 + 2).astype(np.float32)
    mosaic[rng.random(mosaic.shape) < 0.05] = np.nan
    ind = os.path.join(workdir, "in")
    os.makedirs(ind)
    rects = [(0, 0, W // 2, H), (W // 2, 0, W - W // 2, H)]
    paths = [fitsgen.write_piece(os.path.join(ind, "p%d.fits" % i), mosaic, r, (W / 2.0, H / 2.0), bottoms_up=True) for i, r in enumerate(rects)]
    out = os.path.join(workdir, "out")
    instr_mp.install("natural", spec["seed"])
    od, b = toasty.tile_fits(paths, out_dir=out, parallel=spec["par"], override=True, cli_progress=False)
    depth = b.imgset.tile_levels
    tr = true_ranges(out, depth)
    probs = []
    n = 0
    for p in sorted(tilegen.list_tiles(out, "fits")):
        h = fits.getheader(os.path.join(out, tilegen.tile_relpath(p, "fits")))
        n += 1
        if p in tr and (not close(h.get("DATAMIN", np.nan), tr[p][0]) or not close(h.get("DATAMAX", np.nan), tr[p][1])):
            probs.append("tile %s: DATAMIN/DATAMAX = %r/%r, leaves beneath span %r/%r" % (p, h.get("DATAMIN"), h.get("DATAMAX"), tr[p][0], tr[p][1]))
    lo, hi = tr[(0, 0, 0)]
    f = mosaic[np.isfinite(mosaic)]
    if not close(lo, float(f.min())) or not close(hi, float(f.max())):
        probs.append("leaf layer range %r/%r differs from the input data range %r/%r" % (lo, hi, float(f.min()), float(f.max())))
    if not close(b.imgset.data_min, lo) or not close(b.imgset.data_max, hi):
        probs.append("ImageSet.data_min/max = %r/%r, full-resolution range %r/%r" % (b.imgset.data_min, b.imgset.data_max, lo, hi))
    iset = next(ET.parse(os.path.join(out, "index_rel.wtml")).getroot().iter("ImageSet"))
    if not close(float(iset.get("DataMin", 0)), lo) or not close(float(iset.get("DataMax", 0)), hi):
        probs.append("WTML DataMin/DataMax = %s/%s, full-resolution range %r/%r" % (iset.get("DataMin"), iset.get("DataMax"), lo, hi))
    # the same call again on the finished directory (no override): the pyramid is reused; the description that comes back, and a
    # WTML written from it, still carry the full-resolution range
    reuses = 0
    if True:
        od2, b2 = toasty.tile_fits(paths, out_dir=out, parallel=spec["par"], override=False, cli_progress=False)
        reuses = 1
        if b2 is None or not close(b2.imgset.data_min, lo) or not close(b2.imgset.data_max, hi):
            probs.append("reused directory: returned ImageSet.data_min/max = %r/%r, full-resolution range %r/%r" % (getattr(getattr(b2, "imgset", None), "data_min", None), getattr(getattr(b2, "imgset", None), "data_max", None), lo, hi))
        if b2 is not None:
            b2.write_index_rel_wtml()
            iset = next(ET.parse(os.path.join(out, "index_rel.wtml")).getroot().iter("ImageSet"))
            if not close(float(iset.get("DataMin", 0)), lo) or not close(float(iset.get("DataMax", 0)), hi):
                probs.append("reused directory: WTML rewritten from the returned description has DataMin/DataMax = %s/%s, full-resolution range %r/%r" % (iset.get("DataMin"), iset.get("DataMax"), lo, hi))
    res = dict(counters=dict(pyramids=1, headers_checked=n, wtml_checked=1, writer_tile_fits=1, tile_fits_reuse_calls=reuses), nontrivial=True, sample=dict(spec=spec, depth=depth, root_range=[lo, hi]))
    if probs:
        res.update(status="violation", key="data-range:tile_fits", detail="; ".join(probs[:6]))
    return res


def finish(agg, tier):
    c = agg["counters"]
    miss = [w for w in ("write_image", "study", "sample_clobber", "sample_update", "multi_tan", "write_image_int", "tile_fits") if c.get("writer_" + w, 0) < 1]
    if miss or c.get("headers_checked", 0) < 200 or c.get("wtml_checked", 0) < 5:
        return dict(inconclusive="not reached: %s, headers %s, wtml %s" % (miss, c.get("headers_checked"), c.get("wtml_checked")))
    return {}
