"""C09: tiling images on a common TAN grid equals tiling the assembled mosaic."""
import collections
import os
import random
import xml.etree.ElementTree as ET

import numpy as np

from vlib import evlog, fitsgen, instr_mp, models, ref_study, sched, tilegen

PROPERTY = "C09"
LEVEL = "exploration"
OPTIMIZED_SAMPLE = (4, 40)  # cases repeated under python -O (quick, thorough)
JOBS = 12
CASE_TIMEOUT = 400
RULE = (
    "one case = one random mosaic (260-1100 px per axis; F32 with NaN gaps, or I16) decomposed into 1-9 rectangles (disjoint or overlapping "
    "by 0-40 px, some with NaN borders so that an undefined pixel of a later input lies over a defined pixel of an earlier one), written "
    "as FITS pieces on the common TAN grid (bottom-up or top-down), in a random order, tiled by MultiTanProcessor (API) or "
    "`toasty tile-multi-tan` with k in {1,2,3,8} workers under instrumented multiprocessing (a third of the runs with statement-boundary "
    "delays inside toasty's tile I/O and a 300x dilated lock-time-out clock). Oracle: (a) the pasted mosaic tiled as ONE "
    "study image through Builder gives the same deepest-level file set, identical pixels, and the same ImageSet/Place fields (object and "
    "index_rel.wtml, rel 1e-9); (b) the deepest tiles equal an independent cut of the padded canvas; (c) a second run with another input "
    "order / the other parity / another worker count gives identical tiles; (d) no *.lock remains. Non-trivial: >= 2 inputs sharing at "
    "least one tile; distinct by spec."
    " Also: common grids rotated by exact quarter turns and arbitrary angles; 'stack' cases (5-8 full-frame inputs owning exclusive fin"
    'e stripes, 3-4 workers, long updates); a third of the parallel runs with statement-boundary delays on a 300x dilated lock clock; t'
    'he worker receiving one input SIGKILLed.'
    ' Round 8: a quarter of the API runs use the LXY naming scheme; any left-over lock-like file counts.'
    ' Round 9: serial API runs with one transient ENOSPC inside a later Image.save (reported, or judged like any other run).'
)
ASSUMPTIONS = ["overlapping inputs agree by construction", "study tiling itself is decided by C08"]
FIELDS = ["TileLevels", "CenterX", "CenterY", "BaseDegreesPerTile", "Rotation", "OffsetX", "OffsetY", "Projection", "BottomsUp", "WidthFactor", "FileType", "Url"]
PFIELDS = ["RA", "Dec", "ZoomLevel"]


def cases(tier, seed):
    R = random.Random("c09/%d" % seed)
    out = []
    for i in range(60 if tier == "quick" else 2000):
        out.append(dict(W=R.randrange(260, 1100), H=R.randrange(260, 1100), n=R.choice([1, 2, 3, 4, 6, 9]), overlap=R.choice([0, 0, 7, 40]),
                        nanborder=R.choice([0, 0, 3]), dtype=R.choice(["F32", "F32", "F32", "I16"]), bu=R.random() < 0.5, par=R.choice([1, 2, 3, 8]),
                        via=R.choice(["api", "api", "cli"]), profile=R.choice(["jitter", "slow_workers", "natural", "stall", "late_check", "slow_feeder"]), seed=R.randrange(1 << 30),
                        hostile=(i % 3 == 0), one_file=(i % 5 == 1), mixed_parity=(i % 4 == 2)))
        if out[-1]["hostile"]:
            out[-1].update(par=R.choice([2, 3, 8]), n=R.choice([3, 4, 6, 9]), overlap=R.choice([7, 40]))
            if i % 2 == 0:
                # a stack of full-frame exposures: every input touches every tile, three or four workers contend for each
                # tile until the very end of the run
                out[-1].update(stack=True, dtype="F32", par=R.choice([3, 4]), n=R.choice([5, 6, 8]), W=R.randrange(260, 500), H=R.randrange(260, 500))
    for i in range(4 if tier == "quick" else 40):
        out.append(dict(W=R.randrange(260, 900), H=R.randrange(260, 900), n=R.choice([3, 4, 6]), overlap=7, nanborder=0, dtype="F32", bu=R.random() < 0.5, par=R.choice([2, 3]),
                        via="api", profile="natural", seed=R.randrange(1 << 30), kill_input=R.randrange(0, 3)))
    for i in range(6 if tier == "quick" else 80):
        out.append(dict(W=R.randrange(260, 500), H=R.randrange(260, 500), n=R.choice([5, 6, 8]), overlap=7, nanborder=0, dtype="F32", bu=R.random() < 0.5, par=R.choice([3, 4]),
                        via="api", profile=R.choice(["natural", "jitter", "slow_workers"]), seed=R.randrange(1 << 30), hostile=True, stack=True))
    return out


def decompose(R, W, H, n, overlap):
    """n rectangles covering the bounding box corners; a grid decomposition with random cut lines, randomly merged, plus overlap"""
    gx = R.choice([1, 2, 3]) if n > 1 else 1
    gy = max(1, min(3, (n + gx - 1) // gx))
    xs = [0] + sorted(R.sample(range(60, W - 60), gx - 1)) + [W] if gx > 1 else [0, W]
    ys = [0] + sorted(R.sample(range(60, H - 60), gy - 1)) + [H] if gy > 1 else [0, H]
    rects = []
    for j in range(gy):
        for i in range(gx):
            x0, x1, y0, y1 = xs[i], xs[i + 1], ys[j], ys[j + 1]
            x0o, y0o = max(0, x0 - R.randrange(0, overlap + 1)), max(0, y0 - R.randrange(0, overlap + 1))
            x1o, y1o = min(W, x1 + R.randrange(0, overlap + 1)), min(H, y1 + R.randrange(0, overlap + 1))
            rects.append((x0o, y0o, x1o - x0o, y1o - y0o))
    # drop an interior rectangle sometimes (uncovered region stays undefined), never a corner one
    if len(rects) >= 9 and R.random() < 0.5:
        rects.pop(4)
    return rects


def wtml_fields(path):
    root = ET.parse(path).getroot()
    iset = next(root.iter("ImageSet"))
    out = {k: iset.get(k) for k in FIELDS}
    pl = next(root.iter("Place"), None)
    if pl is not None:
        out.update({"Place." + k: pl.get(k) for k in PFIELDS})
    return out


def cmp_fields(a, b, probs, what):
    for k in sorted(set(a) | set(b)):
        x, y = a.get(k), b.get(k)
        if x == y:
            continue
        if k == "Url" and {x, y} == {"{1}/{3}/{3}_{2}.fits", "L{1}X{2}Y{3}.fits"}:
            continue  # the two runs use different naming schemes on purpose (LXY runs)
        try:
            fx, fy = float(x), float(y)
            if abs(fx - fy) <= 1e-9 * max(abs(fx), abs(fy), 1e-12):
                continue
            if k.lower().startswith("rotation") and abs(((fx - fy + 180.0) % 360.0) - 180.0) <= 1e-7:
                continue  # an angle: -180 and 180 are the same rotation
        except (TypeError, ValueError):
            pass
        probs.append(("astrometry-differs", "%s: %s = %r vs %r" % (what, k, x, y)))


def imgset_fields(b):
    i = b.imgset
    return dict(tile_levels=i.tile_levels, center_x=i.center_x, center_y=i.center_y, base_degrees_per_tile=i.base_degrees_per_tile, rotation_deg=i.rotation_deg,
                offset_x=i.offset_x, offset_y=i.offset_y, projection=str(i.projection), bottoms_up=i.bottoms_up, width_factor=i.width_factor,
                ra_hr=b.place.ra_hr, dec_deg=b.place.dec_deg, zoom_level=b.place.zoom_level)


def run_multi_tan(spec, paths, out, par, via, log, profile):
    from toasty import cli
    from toasty.builder import Builder
    from toasty.collection import SimpleFitsCollection
    from toasty.multi_tan import MultiTanProcessor
    from toasty.pyramid import PyramidIO

    evlog.open_log(log)
    instr_mp.install(profile if par > 1 else "natural", spec["seed"])
    b = None
    hdu_index = None
    if spec.get("one_file"):
        # the inputs are the extensions of ONE multi-extension file (the same path listed n times with an HDU list)
        paths, hdu_index = fitsgen.bundle(paths, os.path.join(os.path.dirname(paths[0]), "bundle-%s.fits" % os.path.basename(out)))
    if via == "cli" and hdu_index is None:  # (`tile-multi-tan --hdu-index` takes ONE index: a per-file list needs the API)
        fn = lambda: cli.entrypoint(["tile-multi-tan", "--outdir", out, "-j", str(par)] + paths)
    else:
        # a quarter of the API runs use the flat LXY naming scheme (the tiles are moved to the default layout afterwards for
        # the comparisons; anything else the run leaves behind - lock files - stays where it is)
        lxy = spec["seed"] % 4 == 1
        pio = PyramidIO(out, default_format="fits", scheme="LXY") if lxy else PyramidIO(out, default_format="fits")
        b = Builder(pio)
        proc = MultiTanProcessor(SimpleFitsCollection(paths, hdu_index=hdu_index))
        proc.compute_global_pixelization(b)

        def fn():
            proc.tile(pio, parallel=par)
            b.write_index_rel_wtml()

    if par > 1 and spec.get("kill_input") is not None and "piece%02d.fits" % spec["kill_input"] in [os.path.basename(x) for x in paths]:
        instr_mp._S["kill_on_item"] = "piece%02d.fits" % spec["kill_input"]
    if par > 1:
        if spec.get("hostile"):
            # workers are descheduled between statements of toasty's tile I/O (also inside the locked region), on a clock
            # on which 40 ms are twelve seconds: a lock that is held "too long" is still held
            inner = fn

            def fn():
                sched.dilate_clocks(300.0, names=("perf_counter",))
                if spec.get("stack"):
                    sched.install(spec["seed"], p=0.08, files=("pyramid.py",), lo=0.01, hi=0.2, budget=5.0)  # long updates: always a holder and a waiter
                else:
                    sched.install(spec["seed"], p=0.04, files=("pyramid.py", "multi_tan.py"), lo=0.002, hi=0.15, budget=2.5)
                inner()

        outcome, info = models.run_stage(fn, log, "producer", watchdog=200)
    else:
        evlog.ev("stage_call")
        fn()
        evlog.ev("stage_ret")
        outcome, info = "returned", {}
    recs = evlog.read(log)
    evlog.close_log()
    if os.path.isdir(out):
        import re

        for f in os.listdir(out):
            m = re.fullmatch(r"L(\d+)X(\d+)Y(\d+)\.(fits|npy|png|jpg)", f)
            if m:
                n, x, y = int(m.group(1)), int(m.group(2)), int(m.group(3))
                dst = os.path.join(out, tilegen.tile_relpath((n, x, y), m.group(4)))
                os.makedirs(os.path.dirname(dst), exist_ok=True)
                os.rename(os.path.join(out, f), dst)
    return outcome, info, b, recs


def compare_tile_dirs(a, b, probs, what):
    ta, tb = tilegen.list_tiles(a, "fits"), tilegen.list_tiles(b, "fits")
    if ta != tb:
        probs.append((what + "-tileset", "%s: tile sets differ: %s" % (what, sorted(ta ^ tb)[:6])))
    n = 0
    for p in sorted(ta & tb):
        x, y = tilegen.read_tile(a, p, "fits"), tilegen.read_tile(b, p, "fits")
        n += 1
        if x.shape != y.shape or x.dtype.kind != y.dtype.kind or not np.array_equal(x, y, equal_nan=x.dtype.kind == "f"):
            bad = ~((x == y) | ((x != x) & (y != y))) if x.shape == y.shape else None
            probs.append((what + "-pixels", "%s: tile %s differs (%s pixels)" % (what, p, "?" if bad is None else int(bad.sum()))))
    return n


def run_case(spec, workdir):
    from toasty.builder import Builder
    from toasty.image import Image
    from toasty.pyramid import PyramidIO

    R = random.Random(spec["seed"])
    rng = np.random.default_rng(spec["seed"])
    W, H = spec["W"], spec["H"]
    isint = spec["dtype"] == "I16"
    mosaic = rng.integers(1, 20000, (H, W)).astype(np.int16) if isint else rng.normal(size=(H, W)).astype(np.float32)
    rects = decompose(R, W, H, spec["n"], spec["overlap"])
    layers = (not isint) and (spec["seed"] % 3 == 0 or bool(spec.get("stack")))
    blobs = {}
    if layers:
        # "layers": every input spans (nearly) the whole mosaic and carries large undefined blobs; the blobs of different
        # inputs are disjoint, so the union is defined everywhere, tiles are fully covered by inputs that are undefined
        # inside them, and an undefined pixel of a later input always lies over a defined pixel of an earlier one
        k = max(2, min(3, spec["n"])) if not spec.get("stack") else max(4, min(6, spec["n"]))
        rects = [(0, 0, W, H)] + [(R.randrange(0, 30), R.randrange(0, 30), W - 30 - R.randrange(0, 30), H - 30 - R.randrange(0, 30)) for _ in range(k - 1)]
        yy, xx = np.mgrid[0:H, 0:W]
        if spec.get("stack"):
            # each exposure contributes pixels that NO other input defines (its own fine stripes): losing one update of
            # one tile is visible in the result
            stripe = ((xx // R.choice([3, 7, 16])) + (yy // R.choice([5, 11]))) % k
            for i in range(k):
                blobs[i] = stripe != i
        else:
            stripe = ((xx // R.choice([97, 256, 300])) + (yy // R.choice([131, 256, 280]))) % k
            for i in range(k):
                blobs[i] = stripe == i
    ref = (W / 2.0 + R.choice([0, 0.5, 13]), H / 2.0 + R.choice([0, -7]))
    scale = 10 ** R.uniform(-4, -2.5)
    crval = (R.uniform(0, 360), R.uniform(-70, 70))
    rot = R.choice([None, None, 0, 90, 180, 270, 90, 270, R.uniform(0, 360)])  # the common grid may be rotated on the sky (exactly 90/270: PCi_i = 0.0)
    order = list(range(len(rects)))
    R.shuffle(order)
    probs = []

    def write_inputs(d, bu, order_):
        os.makedirs(d)
        paths = []
        pieces = []
        for k in order_:
            r = rects[k]
            nb = spec["nanborder"] if (not isint and k % 2 == 1) else 0
            src = mosaic
            if k in blobs:
                src = mosaic.copy()
                src[blobs[k]] = np.nan
            bu_k = bu if not spec.get("mixed_parity") else bool((spec["seed"] >> (k % 16)) & 1)  # per-file row order
            p = fitsgen.write_piece(os.path.join(d, "piece%02d.fits" % k), src, r, ref, scale=scale, crval=crval, bottoms_up=bu_k, nan_border=nb, rot=rot,
                                    parity_in_pc=bool(spec.get("mixed_parity")))
            paths.append(p)
            x0, y0, w, h = r
            arr = np.array(src[y0:y0 + h, x0:x0 + w])
            if nb:
                m = np.zeros(arr.shape, bool)
                m[:nb] = m[-nb:] = True
                m[:, :nb] = m[:, -nb:] = True
                arr[m] = np.nan
            pieces.append((r, arr))
        return paths, pieces

    paths, pieces = write_inputs(os.path.join(workdir, "in1"), spec["bu"], order)
    # reference mosaic: defined wins
    if isint:
        pasted = np.zeros((H, W), np.int16)
        for (x0, y0, w, h), arr in pieces:
            pasted[y0:y0 + h, x0:x0 + w] = np.maximum(pasted[y0:y0 + h, x0:x0 + w], arr)
    else:
        pasted = fitsgen.paste((H, W), pieces)
    out1 = os.path.join(workdir, "mt1")
    fp = None
    if spec["par"] == 1 and spec["via"] == "api" and spec["seed"] % 3 != 0 and len(rects) >= 2:
        # a transient write failure (disk full for a moment) on a LATER save of some tile during the serial run: the run reports
        # it - or, if it carries on, the tiles are judged like any others
        import errno

        fp = sched.failpoint("image.py", "save", OSError(errno.ENOSPC, "No space left on device (injected)"), skip=R.randrange(2, 14), count=1)
    try:
        o1, i1, b1, recs1 = run_multi_tan(spec, paths, out1, spec["par"], spec["via"], os.path.join(workdir, "log1"), spec["profile"])
    except OSError as e:
        if fp is None or not fp["fired"]:
            raise
        sched.clear_failpoints()
        evlog.close_log()
        return dict(counters=dict(mosaics=1, write_faults_injected=1, write_faults_reported=1), nontrivial=True, sample=dict(spec=spec, reported=repr(e)[:100]))
    finally:
        sched.clear_failpoints()
    if o1 == "watchdog":
        return dict(status="inconclusive", detail="watchdog")
    if any(r["k"] == "worker_killed" for r in recs1):
        # an input was never tiled: the operation must not come back as if it had done everything (nor wait for ever)
        res = dict(counters=dict(mosaics=1, worker_kills=1), nontrivial=True, sample=dict(spec=spec, outcome=o1))
        if o1 != "raised":
            res.update(status="violation", key="multi-tan-%s-although-a-worker-was-killed" % o1, detail="the worker holding input %s was SIGKILLed, outcome %s %s" % (spec["kill_input"], o1, i1))
        return res
    if o1 != "returned":
        return dict(status="violation", key="multi-tan-" + o1, detail="multi-TAN tiling outcome %s %s %s" % (o1, i1, [r.get("e") for r in recs1 if r["k"] == "stage_exc"]))
    # (a) the pasted mosaic as one study image
    from astropy.wcs import WCS

    outs = os.path.join(workdir, "study")
    pio_s = PyramidIO(outs, default_format="fits")
    bs = Builder(pio_s)
    hdr = fitsgen.tan_header(ref[0] + 1, ref[1] + 1, scale, crval, bottoms_up=False, rot=rot)
    img = Image.from_array(pasted, wcs=WCS(hdr), default_format="fits")
    tiling = bs.prepare_study_tiling(img)
    bs.apply_wcs_info(img.wcs, img.width, img.height)
    bs.execute_study_tiling(img, tiling)
    bs.write_index_rel_wtml()
    ntiles = compare_tile_dirs(out1, outs, probs, "multi-tan-vs-mosaic")
    cmp_fields(wtml_fields(os.path.join(out1, "index_rel.wtml")), wtml_fields(os.path.join(outs, "index_rel.wtml")), probs, "index_rel.wtml multi-TAN vs mosaic")
    if b1 is not None:
        cmp_fields({k: str(v) for k, v in imgset_fields(b1).items()}, {k: str(v) for k, v in imgset_fields(bs).items()}, probs, "Builder fields multi-TAN vs mosaic")
    # (b) independent cut of the padded canvas
    g = ref_study.geometry(W, H)
    P = g["p2n"]
    canvas = np.zeros((P, P), np.int16) if isint else np.full((P, P), np.nan, np.float32)
    canvas[g["gy0"]:g["gy0"] + H, g["gx0"]:g["gx0"] + W] = pasted
    got_tiles = tilegen.list_tiles(out1, "fits")
    exp_tiles = set()
    for ty in range(P // 256):
        for tx in range(P // 256):
            cut = canvas[ty * 256:(ty + 1) * 256, tx * 256:(tx + 1) * 256]
            covered = any(ref_study.tiles_for_rect(g["gx0"] + x0, g["gy0"] + y0, w, h).__contains__((tx, ty)) for (x0, y0, w, h) in rects)
            defined = (not tilegen.entirely_undefined(cut)) if not isint else covered
            if defined:
                exp_tiles.add((g["levels"], tx, ty))
                t = tilegen.read_tile(out1, (g["levels"], tx, ty), "fits")
                if t is None:
                    probs.append(("tile-missing", "tile (%d,%d,%d) absent although inputs cover it" % (g["levels"], tx, ty)))
                elif not np.array_equal(t, cut, equal_nan=not isint):
                    bad = ~((t == cut) | ((t != t) & (cut != cut)))
                    yy, xx = np.argwhere(bad)[0]
                    lost = bool(not isint and np.isnan(t[yy, xx]) and not np.isnan(cut[yy, xx]))
                    probs.append(("pixels-vs-canvas" + (":defined-pixel-lost" if lost else ""), "tile (%d,%d,%d): %d pixels differ from the pasted mosaic, first row %d col %d (got %r, mosaic %r)" % (g["levels"], tx, ty, int(bad.sum()), yy, xx, t[yy, xx], cut[yy, xx])))
    extra = {p for p in got_tiles if p not in exp_tiles}
    if extra:
        probs.append(("tile-unexpected", "tiles %s exist though no input covers them with defined data" % sorted(extra)[:5]))
    # (c) other order / parity / worker count
    order2 = list(order)
    R.shuffle(order2)
    bu2 = (not spec["bu"]) if R.random() < 0.5 else spec["bu"]
    par2 = R.choice([1, 2, 3])
    paths2, _ = write_inputs(os.path.join(workdir, "in2"), bu2, order2)
    out2 = os.path.join(workdir, "mt2")
    o2, i2, b2, recs2 = run_multi_tan(spec, paths2, out2, par2, "api", os.path.join(workdir, "log2"), "natural")
    if o2 == "returned":
        compare_tile_dirs(out1, out2, probs, "order/parity/workers (order %s->%s, bottom-up %s->%s, k %d->%d)" % (order, order2, spec["bu"], bu2, spec["par"], par2))
        cmp_fields(wtml_fields(os.path.join(out1, "index_rel.wtml")), wtml_fields(os.path.join(out2, "index_rel.wtml")), probs, "index_rel.wtml across order/parity")
    elif o2 != "watchdog":
        probs.append(("multi-tan-" + o2, "second run outcome %s" % o2))
    # (d) lock files
    for d in (out1, out2):
        locks = [f for root, _, fs in os.walk(d) for f in fs if "lock" in f.lower() and not f.endswith((".fits", ".wtml"))]
        if locks:
            probs.append(("lockfiles-left", "%d lock files remain under %s, e.g. %s" % (len(locks), os.path.basename(d), locks[:3])))
    # contention: updates of one tile by different pids
    upd = collections.defaultdict(set)
    shared = collections.Counter()
    for (x0, y0, w, h) in rects:
        for t in ref_study.tiles_for_rect(g["gx0"] + x0, g["gy0"] + y0, w, h):
            shared[t] += 1
    nshared = sum(1 for v in shared.values() if v >= 2)
    res = dict(counters=dict(mosaics=1, mosaics_layered=int(layers), mosaics_hostile_schedule=int(bool(spec.get("hostile")) and spec["par"] > 1), tiles_compared=ntiles, shared_tiles=nshared, **{"par_%d" % spec["par"]: 1, "via_" + spec["via"]: 1, "bu_%s" % spec["bu"]: 1}),
               nontrivial=(len(rects) >= 2 and nshared >= 1), sample=dict(spec=spec, rects=rects, order=order, levels=g["levels"]))
    if probs:
        keys = sorted({k.split(" ")[0] for k, _ in probs})
        res.update(status="violation", key="+".join(keys)[:140], detail="; ".join(t for _, t in probs[:5]))
    return res


def finish(agg, tier):
    c = agg["counters"]
    if c.get("mosaics", 0) < 15 or c.get("shared_tiles", 0) < 20 or c.get("tiles_compared", 0) < 100:
        return dict(inconclusive="too little reached: %s" % c)
    return {}
