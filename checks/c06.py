"""C06: TOAST sampling writes the sampler's values at each tile's own pixel centres."""
import collections
import os
import random

import numpy as np

from vlib import coherence, evlog, gens, instr_mp, models, sched, tilegen
from vlib import ref_quadtree as rq
from vlib import ref_toast as rt

PROPERTY = "C06"
LEVEL = "exploration"
OPTIMIZED_SAMPLE = (5, 40)  # cases repeated under python -O (quick, thorough)
JOBS = 14
CASE_TIMEOUT = 400
RULE = (
    "one case = one real sampling run (sample_layer, sample_layer_filtered, Builder.toast_base or `toasty tile-allsky`) at depth 0-3(4), "
    "one coordinate system, one format (npy/fits/png/jpg), one sampler kind (position-revealing F64/F32, U8, I16, RGB, RGBA with undefined "
    "regions), clobber or update mode (update also over tiles left by a previous update pass, or the two update passes as two concurrent jobs "
    "on one pyramid under statement-boundary delays), k in {1,2,5} workers under a delay profile (incl. producer stalls), optional filter "
    "(position set or lat/lon box). Oracle: the files are read with numpy/PIL/astropy; tile p exists iff p is a reference leaf (and its "
    "data are not entirely undefined); in display orientation (FITS rows reversed) pixel (i,j) equals sampler(lon[i,j], lat[i,j]) EXACTLY, "
    "(lon,lat) = toast_tile_get_coords(create_single_tile(p)); update mode: defined sampler pixels replace, undefined keep the old value; "
    "parallel result identical to serial; jpg compared at write_image. Depth 0: pixel (i,j) must be the sampler at the centre of tile "
    "(8,j,i) of the independent reference (1e-6). Non-trivial: >= 4 tiles or depth 0; distinct by spec."
    ' Also: big-endian sampler outputs; the two update passes as two concurrent jobs on one pyramid (statement-boundary delays, 300x di'
    'lated lock clock, a slow source for the first tiles of one job); producer-stall / late-check profiles in the parallel runs.'
    " Round 8: unfiltered depth-3 layers with 3/5/6/7 workers; entry 'reused_pyramid' (one Pyramid object sampled before and after its depth attribute changes)."
)
ASSUMPTIONS = ["toast_tile_get_coords is trusted here (decided by C05)", "samplers are functions of cos/sin of the longitude (grids may be on any 2pi branch)"]
SAMPLERS = ["f64pos", "f32", "u8", "i16", "rgb", "rgba", "f32_be", "f64pos_be", "i16_be"]
FMT_OK = {"npy": SAMPLERS, "fits": ["f64pos", "f32", "u8", "i16", "f32_be", "f64pos_be", "i16_be"], "png": ["rgb", "rgba"], "jpg": ["rgb"]}


def precheck():
    return coherence.check()


def cases(tier, seed):
    R = random.Random("c06/%d" % seed)
    out = []
    n = 72 if tier == "quick" else 560
    combos = [(f, s) for f in FMT_OK for s in FMT_OK[f]]
    for i in range(n):
        fmt, smp = combos[i % len(combos)]
        depth = R.choice([0, 1, 1, 2, 2] if tier == "quick" else [0, 1, 2, 2, 3, 3])
        if tier == "thorough" and i % 40 == 0:
            depth = 4
        entry = R.choice(["sample_layer", "sample_layer_filtered", "sample_layer_filtered", "toast_base"])
        mode = R.choice(["clobber", "clobber", "reclobber"]) if entry == "sample_layer" else R.choice(["update", "update2"])
        if entry == "toast_base":
            mode = R.choice(["clobber", "update"])
        if fmt == "jpg" and mode == "update2":
            mode = "update"
        out.append(dict(entry=entry, depth=depth, cs=R.choice(["astronomical", "planetary"]), fmt=fmt, sampler=smp, mode=mode,
                        par=R.choice([1, 2, 5]), filt=(R.choice([None, "posset", "box"]) if entry != "sample_layer" and mode != "clobber" else None),
                        seed=R.randrange(1 << 30)))
        # update mode exists for several jobs working on one pyramid at once: the two update passes run as concurrent jobs
        out[-1]["concurrent"] = (mode == "update2" and i % 2 == 0)
    for i in range(14 if tier == "quick" else 120):
        fmt, smp = R.choice([("npy", "f32"), ("npy", "f64pos"), ("npy", "rgba"), ("fits", "f32"), ("fits", "i16"), ("png", "rgba"), ("npy", "u8")])
        out.append(dict(entry=R.choice(["sample_layer_filtered", "toast_base"]), depth=R.choice([1, 1, 2]), cs=R.choice(["astronomical", "planetary"]), fmt=fmt, sampler=smp,
                        mode="update2", par=1, filt=R.choice([None, None, "posset"]), seed=R.randrange(1 << 30), concurrent=True))
    for i in range(3 if tier == "quick" else 20):
        out.append(dict(entry=R.choice(["sample_layer", "sample_layer_filtered"]), depth=R.choice([1, 2]), cs=R.choice(["astronomical", "planetary"]), fmt=R.choice(["npy", "fits"]), sampler="f64pos",
                        mode="clobber", par=1, filt=None, seed=R.randrange(1 << 30), flaky_sampler=True))
    for i in range(3 if tier == "quick" else 20):
        out.append(dict(entry=R.choice(["sample_layer", "sample_layer_filtered"]), depth=R.choice([1, 2]), cs="astronomical", fmt="npy", sampler="f32", mode="clobber" if i % 2 else "update",
                        par=R.choice([2, 5]), filt=None, seed=R.randrange(1 << 30), kill_leaf=True))
    # worker counts that are not powers of two, on an unfiltered layer with more leaves than any queue bound (depth 3)
    for i, k in enumerate((3, 5, 6, 7) if tier == "quick" else (3, 5, 6, 7, 9, 10, 11, 12, 13)):
        out.append(dict(entry="sample_layer", depth=3 if (tier == "quick" or i % 3) else 4, cs=R.choice(["astronomical", "planetary"]), fmt="npy", sampler=R.choice(["f32", "f64pos"]), mode="clobber",
                        par=k, filt=None, seed=R.randrange(1 << 30)))
    # one Pyramid object, used (counted, visited with a sampler) at one depth and then again after its documented
    # `depth` attribute was changed - the Pyramid / ToastSampler API that sample_layer itself is made of
    for i in range(5 if tier == "quick" else 40):
        d = R.choice([1, 2, 2])
        out.append(dict(entry="reused_pyramid", depth=d, depth0=R.choice([x for x in (0, 1, 2, 3) if x != d]), cs=R.choice(["astronomical", "planetary"]), fmt=R.choice(["npy", "fits"]),
                        sampler=R.choice(["f32", "f64pos"]), mode="clobber", par=R.choice([1, 2, 3]), filt=R.choice([None, "posset", "box"]), seed=R.randrange(1 << 30)))
    for i in range(3 if tier == "quick" else 20):
        out.append(dict(entry="cli", depth=R.choice([0, 1, 2]), cs=R.choice(["astronomical", "planetary"]), fmt="png", sampler="map", mode="clobber", par=R.choice([1, 2]), filt=None, seed=R.randrange(1 << 30)))
    return out


def make_sampler(kind, part=None):
    """part: None = everywhere defined (where the kind allows); 'a'/'b' = complementary undefined regions"""
    def region(lon, lat):
        if part is None:
            return np.ones(lon.shape, bool)
        m = np.sin(5 * lat) * np.cos(lon) > 0.1
        return m if part == "a" else ~m

    if kind.endswith("_be"):
        base = make_sampler(kind[:-3], part)

        def s_be(lon, lat):  # what a FITS-backed source hands out: non-native byte order
            v = base(lon, lat)
            return v.astype(v.dtype.newbyteorder(">"))

        return s_be
    if kind == "f64pos":
        def s(lon, lat):
            v = np.cos(lon) + 10 * np.sin(lon) + 100 * lat
            v[~region(lon, lat)] = np.nan
            return v
    elif kind == "f32":
        def s(lon, lat):
            v = (np.sin(3 * lat) * np.cos(lon) * 1000).astype(np.float32)
            v[~region(lon, lat)] = np.nan
            return v
    elif kind == "u8":
        def s(lon, lat):
            v = (1 + np.floor((np.cos(lon) + 1) * 60) + np.floor((lat + 1.6) * 40)).astype(np.uint8)
            v[~region(lon, lat)] = 0
            return v
    elif kind == "i16":
        def s(lon, lat):
            v = (1 + np.floor((np.sin(lon) + 1) * 9000) + np.floor((lat + 1.6) * 3000)).astype(np.int16)
            v[~region(lon, lat)] = 0
            return v
    elif kind == "rgb":
        def s(lon, lat):
            v = np.empty(lon.shape + (3,), np.uint8)
            v[..., 0] = np.floor((np.cos(lon) + 1) * 127)
            v[..., 1] = np.floor((np.sin(lon) + 1) * 127)
            v[..., 2] = np.floor((lat + 1.6) * 79)
            return v
    else:
        def s(lon, lat):
            v = np.empty(lon.shape + (4,), np.uint8)
            v[..., 0] = np.floor((np.cos(lon) + 1) * 127)
            v[..., 1] = np.floor((np.sin(lon) + 1) * 127)
            v[..., 2] = np.floor((lat + 1.6) * 79)
            v[..., 3] = 255
            v[~region(lon, lat), 3] = 0
            return v
    return s


def level0_reference_grid(pl):
    V, inc = rt.vertex_grid(8, pl)
    a, b, c, d = V[:-1, :-1], V[:-1, 1:], V[1:, :-1], V[1:, 1:]
    cen = np.where(inc[..., None], rt.unit(c + b), rt.unit(a + d))
    return rt.lonlat(cen)


def expected_tile(spec, p, cs, samplers_in_order):
    """expected display-orientation content of tile p after applying the samplers in order (update semantics)"""
    from toasty import toast
    from toasty.pyramid import Pos

    if p[0] == 0:
        lon, lat = level0_reference_grid(spec["cs"] == "planetary")
    else:
        lon, lat = toast.toast_tile_get_coords(toast.create_single_tile(Pos(*p), coordsys=cs))
    cur = None
    for s in samplers_in_order:
        v = np.asarray(s(lon, lat))
        if cur is None or spec["mode"] in ("clobber", "reclobber"):
            if spec["mode"] not in ("clobber", "reclobber"):
                base = tilegen.undefined_like(tilegen.to_maskable(v), (256, 256))
                cur = base
            else:
                cur = v.copy()
                continue
        vm = tilegen.to_maskable(v)
        if vm.dtype.kind == "f":
            ok = ~np.isnan(vm)
            cur[ok] = vm[ok]
        elif vm.ndim == 3:
            ok = vm[..., 3] != 0
            cur[ok] = vm[ok]
        else:
            cur = np.maximum(cur, vm)
    return cur


def run_case(spec, workdir):
    from toasty import cli, toast
    from toasty.builder import Builder
    from toasty.pyramid import Pos, PyramidIO
    from toasty.toast import ToastCoordinateSystem as CS

    from vlib.pio import LoggingPIO

    pl = spec["cs"] == "planetary"
    cs = CS.PLANETARY if pl else CS.ASTRONOMICAL
    depth, fmt, par = spec["depth"], spec["fmt"], spec["par"]
    R = random.Random(spec["seed"])
    if spec["entry"] == "cli":
        return case_cli(spec, workdir, R)
    # filter
    acc = None
    filt = None
    pspec = dict(kind="toast", depth=depth, apex=None, accepted=None, coordsys=spec["cs"])
    if spec["filt"] == "posset" and depth >= 1:
        fam, accl = gens.gen_filter(R, depth)
        pspec = dict(kind="filtered", depth=depth, apex=None, accepted=accl, coordsys=spec["cs"])
        accs = {tuple(a) for a in accl}
        filt = lambda t: (int(t.pos.n), int(t.pos.x), int(t.pos.y)) in accs
    elif spec["filt"] == "box" and depth >= 1:
        g = gens.gen_pyramid(R, kinds=("bbox",), maxdepth=depth, mindepth=depth, sub_p=0)
        pspec = dict(g, coordsys=spec["cs"])
        from toasty.samplers import _latlon_tile_filter

        filt = _latlon_tile_filter(*g["bbox"])
    acc = gens.resolve_accepted(pspec)
    leaves = rq.leaves(depth, acc)
    passes = [make_sampler(spec["sampler"], None)] if spec["mode"] != "update2" else [make_sampler(spec["sampler"], "a"), make_sampler(spec["sampler"], "b")]
    if spec["mode"] == "update" and spec["sampler"] in ("f64pos", "f32", "rgba", "u8", "i16", "f32_be", "f64pos_be", "i16_be"):
        passes = [make_sampler(spec["sampler"], "a")]
    if spec["mode"] == "reclobber":
        # an all-sky layer is sampled first; then a sampler that leaves whole tiles undefined clobbers it: nothing of the
        # first layer may survive (entirely undefined tiles must be absent afterwards)
        def cap(lon, lat, f=make_sampler(spec["sampler"], None)):
            v = f(lon, lat)
            out = lat < 0.9
            if v.dtype.kind == "f":
                v[out] = np.nan
            elif v.ndim == 3 and v.shape[2] == 4:
                v[out, 3] = 0
            return v

        passes = [make_sampler(spec["sampler"], None), cap]
    if spec["sampler"] == "rgb":
        passes = passes[:1] if spec["mode"] != "update2" else [make_sampler("rgb"), make_sampler("rgb")]
    results = {}
    captured_all = {}
    conc = bool(spec.get("concurrent")) and len(passes) == 2
    for tag, k in (("serial", 1), ("par", par)):
        if tag == "par" and par == 1 and not conc:
            continue
        if tag == "par" and conc:
            k = 1
        base = os.path.join(workdir, tag)
        pio = LoggingPIO(base, default_format=fmt)
        captured = {}
        if fmt == "jpg" and k == 1:
            pio.capture = lambda pos, image, kw, c=captured: c.__setitem__(tuple(pos), np.array(image.asarray()))
        log = os.path.join(workdir, "log-" + tag)
        evlog.open_log(log)
        instr_mp.install("natural" if k == 1 else R.choice(["natural", "jitter", "slow_feeder", "slow_workers", "stall", "late_check"]), spec["seed"])

        def slow(f):
            # in parallel runs some tiles take much longer than every (dilated) time-out of the shutdown handshake
            def g(lon, lat):
                if spec.get("flaky_sampler") and lon.size > 128 * 128 and (float(lat[0, 0]) * 1e5) % 1.0 < 0.3:
                    # a source that cannot serve a whole 256x256 request for some tiles (it would for smaller ones)
                    raise MemoryError("injected: request of %d points is too large for this source" % lon.size)
                if _CONC["slow_first"] > 0:
                    # concurrent jobs: the source of the FIRST job is slow for its first tiles (the sampler runs inside the
                    # tile's locked region), so the second job arrives at a tile that is held for a long time
                    _CONC["slow_first"] -= 1
                    import time as _t

                    _t.sleep(0.12)
                if k > 1 and (float(lon[0, 0]) * 1e6) % 1.0 < 0.25:
                    import time as _t

                    _t.sleep(0.3)
                return f(lon, lat)

            return g

        def fn(which=None):
            for s in map(slow, passes if which is None else [passes[which]]):
                if spec["entry"] == "sample_layer":
                    toast.sample_layer(pio, s, depth, coordsys=cs, parallel=k)
                elif spec["entry"] == "sample_layer_filtered":
                    toast.sample_layer_filtered(pio, filt or (lambda t: True), s, depth, coordsys=cs, parallel=k)
                elif spec["entry"] == "reused_pyramid":
                    from toasty.pyramid import Pyramid

                    pyr = Pyramid.new_toast_filtered(spec["depth0"], filt, coordsys=cs) if filt else Pyramid.new_toast(spec["depth0"], coordsys=cs)
                    if spec["seed"] % 2:
                        pyr.count_leaf_tiles()
                        pyr.count_live_tiles()
                    first = PyramidIO(base + "-earlier-depth", default_format=fmt)
                    pyr.visit_leaves(toast.ToastSampler(first, s, True, coordsys=cs).visit_callback, parallel=k)
                    pyr.depth = depth
                    pyr.visit_leaves(toast.ToastSampler(pio, s, True, coordsys=cs).visit_callback, parallel=k)
                else:
                    b = Builder(pio)
                    kw = dict(parallel=k)
                    if spec["mode"] != "clobber":
                        kw["tile_filter"] = filt or (lambda t: True)
                    b.toast_base(s, depth, is_planet=pl, **kw)

        if tag == "par" and conc:
            outcome, info = run_concurrent_jobs(fn, spec["seed"])
        elif k > 1 and spec.get("kill_leaf") and leaves:
            # the worker that receives one leaf is killed by a signal before it can sample it: the run must not come back as if done
            victim = sorted(leaves)[spec["seed"] % len(leaves)]
            instr_mp._S["kill_on_item"] = list(victim)
            outcome, info = models.run_stage(fn, log, "producer", watchdog=200)
            recs_k = evlog.read(log)
            evlog.close_log()
            if outcome == "watchdog" or not any(r["k"] == "worker_killed" for r in recs_k):
                return dict(status="inconclusive", detail="worker kill not reached / watchdog")
            res_k = dict(counters=dict(layers=1, worker_kills=1), nontrivial=True, sample=dict(spec=spec, victim=victim, outcome=outcome))
            if outcome != "raised":
                res_k.update(status="violation", key="sampling-%s-although-a-worker-was-killed" % outcome, detail="the worker holding leaf %s was SIGKILLed; the sampling run ended as '%s' %s" % (victim, outcome, info))
            return res_k
        elif k > 1:
            outcome, info = models.run_stage(fn, log, "producer", watchdog=200)
        else:
            evlog.ev("stage_call")
            if spec.get("flaky_sampler"):
                try:
                    fn()
                except MemoryError:
                    # the sampler's own failure reached the caller: nothing was promised about the tiles then
                    evlog.close_log()
                    return dict(counters=dict(layers=1, sampler_failures_reported=1), nontrivial=True, sample=dict(spec=spec))
            else:
                fn()  # exceptions from toasty propagate and are classified by the driver
            evlog.ev("stage_ret")
            outcome, info = "returned", {}
        recs = evlog.read(log)
        evlog.close_log()
        results[tag] = (outcome, info, base, recs)
        captured_all[tag] = captured
    probs = []
    ntiles = 0
    for tag, (outcome, info, base, recs) in results.items():
        if outcome == "watchdog":
            return dict(status="inconclusive", detail="watchdog")
        if outcome != "returned":
            exc = [r.get("e") for r in recs if r["k"] == "stage_exc"]
            probs.append(("sampling-" + outcome + (":depth0" if depth == 0 else ""), "%s run: outcome %s %s %s" % (tag, outcome, info, exc)))
            continue
        got_tiles = {p for p in tilegen.list_tiles(base, fmt)}
        exp_present = set()
        for p in sorted(leaves):
            exp = expected_tile(spec, p, cs, passes)
            if tilegen.entirely_undefined(exp):
                if p in got_tiles:
                    probs.append(("undefined-tile-stored", "%s: tile %s stored although the sampled data are entirely undefined" % (tag, p)))
                continue
            exp_present.add(p)
            if p not in got_tiles:
                probs.append(("tile-missing", "%s: no file for leaf %s" % (tag, p)))
                continue
            got = tilegen.read_tile(base, p, fmt)
            ntiles += 1
            if fmt == "jpg":
                cap = captured_all[tag].get(p)
                if tag == "serial":
                    if cap is None:
                        probs.append(("tile-missing", "no write_image for %s" % (p,)))
                        continue
                    # captured array is in storage orientation == display for jpg
                    g = cap
                    e = tilegen.to_maskable(exp) if g.shape[-1] == 4 and exp.shape[-1] == 3 else exp
                    if g.shape != e.shape or not np.array_equal(g, e):
                        probs.append(("pixels:top-down", "%s: tile %s handed to write_image differs from the sampler at its own pixel centres" % (tag, p)))
                if got.shape != (256, 256, 3):
                    probs.append(("pixels:top-down", "jpg tile %s decodes to %s" % (p, got.shape)))
                continue
            e = exp
            if fmt == "png" and got.ndim == 3 and got.shape[2] == 4 and e.shape[2] == 3:
                e = tilegen.to_maskable(e)
            if fmt == "npy" and got.ndim == 3 and got.shape[2] == 4 and e.ndim == 3 and e.shape[2] == 3:
                e = tilegen.to_maskable(e)
            if got.shape != e.shape or (got.dtype.kind, got.dtype.itemsize) != (e.dtype.kind, e.dtype.itemsize):
                probs.append(("tile-shape", "%s: tile %s is %s %s, expected %s %s" % (tag, p, got.shape, got.dtype, e.shape, e.dtype)))
                continue
            if depth == 0 and got.dtype.kind == "f":
                ok = np.isclose(got, e, rtol=0, atol=1e-6 * max(1.0, float(np.nanmax(np.abs(e)))), equal_nan=True)
            elif depth == 0:
                ok = np.abs(got.astype(np.int64) - e.astype(np.int64)) <= 1
            else:
                ok = (got == e) | ((got != got) & (e != e)) if got.dtype.kind == "f" else (got == e)
            if got.ndim == 3 and got.shape[2] == 4:
                ok = ok.all(axis=-1) | ((got[..., 3] == 0) & (e[..., 3] == 0))
            elif ok.ndim == 3:
                ok = ok.all(axis=-1)
            if depth == 0 and not ok.all() and got.dtype.kind != "f":
                # integer samplers are step functions: a reference grid differing by 1e-15 may fall on the other side of a step
                if (~ok).mean() < 0.01:
                    ok[:] = True
            if not ok.all():
                yy, xx = np.argwhere(~ok)[0]
                # diagnostics: does it match another arrangement?
                hint = ""
                if np.array_equal(got[::-1], e, equal_nan=got.dtype.kind == "f"):
                    hint = " (rows are in reverse order)"
                probs.append(("pixels:" + ("bottom-up" if fmt in tilegen.BOTTOM_UP else "top-down") + (":depth0" if depth == 0 else ""),
                              "%s: tile %s: %d pixels differ from the sampler at the tile's own pixel centres, first at row %d col %d%s" % (tag, p, int((~ok).sum()), yy, xx, hint)))
        extra = got_tiles - set(leaves)
        if extra:
            probs.append(("tile-unexpected", "%s: files for %s which are not leaves passing the filter" % (tag, sorted(extra)[:5])))
    if "par" in results and results["par"][0] == "returned" and results["serial"][0] == "returned":
        a, b = results["serial"][2], results["par"][2]
        ta, tb = tilegen.list_tiles(a, fmt), tilegen.list_tiles(b, fmt)
        if ta != tb:
            probs.append(("serial-parallel-tileset", "tile sets differ between serial and parallel: %s" % sorted(ta ^ tb)[:5]))
        for p in ta & tb:
            x, y = tilegen.read_tile(a, p, fmt), tilegen.read_tile(b, p, fmt)
            if x.shape != y.shape or not np.array_equal(x, y, equal_nan=x.dtype.kind == "f"):
                probs.append(("serial-parallel-pixels", "tile %s differs between serial and parallel" % (p,)))
    counters = collections.Counter(layers=1, tiles_compared=ntiles)
    counters["fmt_%s" % fmt] += 1
    counters["sampler_%s" % spec["sampler"]] += 1
    counters["mode_%s" % spec["mode"]] += 1
    counters["depth_%d" % depth] += 1
    counters["entry_" + spec["entry"]] += 1
    counters["concurrent_job_pairs"] = int(conc)
    res = dict(counters=dict(counters), nontrivial=(len(leaves) >= 4 or depth == 0), sets=dict(fmt_sampler_mode=[[fmt, spec["sampler"], spec["mode"]]]),
               sample=dict(spec=spec, leaves=len(leaves), tiles_compared=ntiles))
    if probs:
        keys = sorted({k for k, _ in probs})
        res.update(status="violation", key="+".join(keys)[:140], detail="; ".join(t for _, t in probs[:6]))
    return res


_CONC = dict(slow_first=0)


def run_concurrent_jobs(fn, seed):
    """the two update passes as two concurrent jobs (processes) on one pyramid, each descheduled at random between
    statements of toasty's tile I/O; returns (outcome, info) like models.run_stage"""
    import signal
    import time

    go_r, go_w = os.pipe()
    pids = []
    for j in (0, 1):
        pid = os.fork()
        if pid == 0:
            code = 0
            try:
                os.close(go_w)
                os.read(go_r, 1)
                if seed % 2:
                    if j == 0:
                        _CONC["slow_first"] = 2
                    else:
                        time.sleep(0.015)
                sched.dilate_clocks(300.0, names=("perf_counter",))  # the clock lock time-outs read: 60 ms are 18 s
                sched.install(seed + j, p=0.03, files=("pyramid.py",), lo=0.001, hi=0.1, budget=1.5)
                fn(j)
            except BaseException as e:  # noqa
                evlog.ev("stage_exc", e=repr(e)[:300], etype=type(e).__name__)
                code = 3
            finally:
                os._exit(code)
        pids.append(pid)
    os.close(go_r)
    os.close(go_w)  # both jobs see end-of-file at the same moment
    t0 = time.time()
    codes = {}
    while len(codes) < 2 and time.time() - t0 < 150:
        for p in pids:
            if p not in codes:
                r, st = os.waitpid(p, os.WNOHANG)
                if r:
                    codes[p] = os.waitstatus_to_exitcode(st)
        time.sleep(0.01)
    if len(codes) < 2:
        for p in pids:
            if p not in codes:
                os.kill(p, signal.SIGKILL)
                os.waitpid(p, 0)
        return "watchdog", {}
    if any(codes.values()):
        return "raised", dict(exit=sorted(codes.values()))
    return "returned", {}


def case_cli(spec, workdir, R):
    """`toasty tile-allsky` on a generated equirectangular PNG; oracle = plate-carree sampler at the tile's own grid"""
    from PIL import Image as PI
    from toasty import cli, samplers, toast
    from toasty.pyramid import Pos
    from toasty.toast import ToastCoordinateSystem as CS

    pl = spec["cs"] == "planetary"
    cs = CS.PLANETARY if pl else CS.ASTRONOMICAL
    rng = np.random.default_rng(spec["seed"])
    ny, nx = R.choice([(64, 128), (90, 180), (33, 65)])
    m = rng.integers(0, 256, (ny, nx, 3), dtype=np.uint8)
    src = os.path.join(workdir, "map.png")
    PI.fromarray(m).save(src)
    out = os.path.join(workdir, "out")
    proj = "plate-carree-planet" if pl else "plate-carree"
    instr_mp.install("natural", spec["seed"])
    log = os.path.join(workdir, "log")
    evlog.open_log(log)
    args = ["tile-allsky", "--outdir", out, "--projection", proj, "--placeholder-thumbnail", "-j", str(spec["par"]), src, str(spec["depth"])]
    if spec["par"] > 1:
        outcome, info = models.run_stage(lambda: cli.entrypoint(args), log, "producer", watchdog=200)
    else:
        cli.entrypoint(args)
        outcome, info = "returned", {}
    recs = evlog.read(log)
    evlog.close_log()
    if outcome == "watchdog":
        return dict(status="inconclusive", detail="watchdog")
    probs = []
    if outcome != "returned":
        return dict(status="violation", key="sampling-" + outcome + (":depth0" if spec["depth"] == 0 else ""), detail="tile-allsky outcome %s %s %s" % (outcome, info, [r.get("e") for r in recs if r["k"] == "stage_exc"]))
    f = (samplers.plate_carree_planet_sampler if pl else samplers.plate_carree_sampler)(m)
    depth = spec["depth"]
    n = 0
    for p in rq.all_positions(depth, depth):
        got = tilegen.read_tile(out, p, "png")
        if got is None:
            probs.append(("tile-missing", "no file for %s" % (p,)))
            continue
        if depth == 0:
            lon, lat = level0_reference_grid(pl)
        else:
            lon, lat = toast.toast_tile_get_coords(toast.create_single_tile(Pos(*p), coordsys=cs))
        e = f(lon, lat)
        n += 1
        bad = (got[..., :3] != e).any(axis=-1)
        if bad.mean() > (0.01 if depth == 0 else 0):
            probs.append(("pixels:top-down" + (":depth0" if depth == 0 else ""), "tile %s: %d pixels differ from the map sampled at the tile's pixel centres" % (p, int(bad.sum()))))
    res = dict(counters=dict(layers=1, tiles_compared=n, entry_cli=1, **{"depth_%d" % depth: 1}), nontrivial=True, sample=dict(spec=spec))
    if probs:
        keys = sorted({k for k, _ in probs})
        res.update(status="violation", key="+".join(keys), detail="; ".join(t for _, t in probs[:5]))
    return res


def finish(agg, tier):
    c = agg["counters"]
    miss = [k for k in ("fmt_npy", "fmt_fits", "fmt_png", "fmt_jpg", "mode_clobber", "mode_reclobber", "mode_update", "mode_update2", "depth_0", "depth_2", "entry_cli", "entry_toast_base", "concurrent_job_pairs") if c.get(k, 0) < 1]
    if miss or c.get("tiles_compared", 0) < 200:
        return dict(inconclusive="not reached: %s; tiles %s" % (miss, c.get("tiles_compared")))
    return {}
