"""C08: study tiling is a lossless, centred partition of the image into 256-pixel tiles."""
import collections
import os
import random
import xml.etree.ElementTree as ET

import numpy as np

from vlib import sched, ref_study

PROPERTY = "C08"
LEVEL = "exploration"
OPTIMIZED_SAMPLE = (10, 100)  # cases repeated under python -O (quick, thorough)
JOBS = 16
CASE_TIMEOUT = 300
RULE = (
    "'geom' cases: a block of widths x a list of heights; for each (w,h) the StudyTiling parameters and every tuple from "
    "generate_populated_positions are compared with the independent model (smallest power-of-two square >= 256, floor-centred offsets, "
    "rectangle = image rect intersected with tile rect), count_populated_positions with the number generated, image_to_tile on "
    "corner/edge/random pixels. 'sub' cases: compute_for_subimage for offsets/sizes inside a parent. 'pix' cases: an image of a "
    "boundary size in a given mode is tiled by a real entry point (tile_study_image, Builder.tile_base_as_study, StudyTiling.tile_image "
    "on a sub-image, `toasty tile-study`), the tiles are located through the Url template of index_rel.wtml, read with numpy/PIL/astropy "
    "and reassembled in display orientation: image region exact, everything else undefined. Non-trivial: image spans >= 2 tiles or is "
    "not tile-aligned; distinct by spec."
    ' Also: an earlier image already tiled into the directory (the new one undefined over whole tiles); one StudyTiling applied to imag'
    'es of two modes; sub-tilings that travelled through pickle / copy; one tile whose storing fails with EDQUOT.'
    ' Round 9: a third of the plain API cases use the LXY naming scheme.'
)
ASSUMPTIONS = ["ref_study model follows the statement", "PIL/numpy/astropy readers are correct"]
EXHAUSTIVE = {"quick": "every width 1..2049 x heights {1,255,256,257,511,512,513,1024,1025}", "thorough": "all (w,h) pairs with w,h <= 600; widths 1..4097 x boundary heights"}
DT = dict(F32=np.float32, F64=np.float64, U8=np.uint8, I16=np.int16, I32=np.int32, F16x3=np.float16)
FMT_MODES = {"png": ["RGB", "RGBA"], "npy": ["RGB", "RGBA", "U8", "I16", "I32", "F32", "F64", "F16x3"], "fits": ["F32", "F64", "U8", "I16", "I32"]}


def cases(tier, seed):
    R = random.Random("c08/%d" % seed)
    out = []
    hs = [1, 255, 256, 257, 511, 512, 513, 1024, 1025]
    wmax = 2049 if tier == "quick" else 4097
    for w0 in range(1, wmax + 1, 128):
        out.append(dict(t="geom", w0=w0, w1=min(w0 + 128, wmax + 1), hs=hs + [R.randrange(1, 5000)]))
    if tier == "thorough":
        for w0 in range(1, 601, 20):
            out.append(dict(t="geom", w0=w0, w1=min(w0 + 20, 601), hs=list(range(1, 601))))
        for _ in range(40):
            out.append(dict(t="geom", w0=(w := R.randrange(1, 40000)), w1=w + 3, hs=[R.randrange(1, 40000) for _ in range(10)]))
    for i in range(40 if tier == "quick" else 300):
        out.append(dict(t="sub", W=R.choice([1, 2, 255, 256, 257, 300, 513, 700, 1025, R.randrange(1, 3000)]), H=R.choice([1, 256, 257, 400, 513, 900, R.randrange(1, 3000)]), seed=R.randrange(1 << 30), n=200))
    sizes = [1, 2, 3, 255, 256, 257, 300, 511, 512, 513, 700]
    big = [1023, 1024, 1025]
    combos = [(f, m) for f in FMT_MODES for m in FMT_MODES[f]]
    n = 150 if tier == "quick" else 3000
    for i in range(n):
        fmt, mode = combos[i % len(combos)]
        w = R.choice(sizes + (big if i % 7 == 0 else []) + [R.randrange(1, 800)])
        h = R.choice(sizes + [R.randrange(1, 800)])
        entry = R.choice(["tile_study_image", "builder", "subimage", "subimage"])
        out.append(dict(t="pix", fmt=fmt, mode=mode, w=w, h=h, entry=entry, seed=R.randrange(1 << 30)))
    # histories: the directory already holds the tiles of an earlier image of the same size (the new image is undefined over
    # whole tiles), or the StudyTiling object has already tiled an image of another mode
    for i in range(30 if tier == "quick" else 400):
        fmt, mode = combos[(i * 3) % len(combos)]
        out.append(dict(t="pix", fmt=fmt, mode=mode, w=R.choice([513, 600, 700, 800]), h=R.choice([513, 520, 700]), entry=R.choice(["tile_study_image", "builder", "subimage"]),
                        seed=R.randrange(1 << 30), prior=["same_dir", "same_tiling"][i % 2]))
    # one tile cannot be stored (quota, disk full): the tiling must report it - or the tiles must still be right
    for i in range(8 if tier == "quick" else 80):
        fmt, mode = combos[(i * 5) % len(combos)]
        out.append(dict(t="pix", fmt=fmt, mode=mode, w=R.choice([300, 513, 700]), h=R.choice([300, 513, 600]), entry=R.choice(["tile_study_image", "builder", "subimage"]),
                        seed=R.randrange(1 << 30), io_fault=True))
    for i in range(8 if tier == "quick" else 60):
        out.append(dict(t="pix", fmt="png", mode=R.choice(["RGB", "RGBA"]), w=R.choice(sizes), h=R.choice(sizes), entry="cli", seed=R.randrange(1 << 30)))
        out.append(dict(t="pix", fmt="fits", mode="F32", w=R.choice(sizes), h=R.choice(sizes), entry="cli", seed=R.randrange(1 << 30)))
    return out


def _check_tiling(t, w, h, g, gx0, gy0, iw, ih, probs, R=None):
    """t: a StudyTiling whose image rect is (gx0,gy0,iw,ih) in global pixels"""
    from toasty.pyramid import Pos

    rects = list(t.generate_populated_positions())
    exp_tiles = ref_study.tiles_for_rect(gx0, gy0, iw, ih)
    seen = set()
    area = 0
    for (pos, rw, rh, ix, iy, tx, ty) in rects:
        key = (pos.x, pos.y)
        if pos.n != g["levels"]:
            probs.append("%dx%d: tile level %d, expected %d" % (w, h, pos.n, g["levels"]))
        if key in seen:
            probs.append("%dx%d: tile %s generated twice" % (w, h, key))
        seen.add(key)
        # reference intersection
        ex0, ey0 = max(pos.x * 256, gx0), max(pos.y * 256, gy0)
        ex1, ey1 = min(pos.x * 256 + 256, gx0 + iw), min(pos.y * 256 + 256, gy0 + ih)
        exp = (ex1 - ex0, ey1 - ey0, ex0 - gx0, ey0 - gy0, ex0 - pos.x * 256, ey0 - pos.y * 256)
        if (rw, rh, ix, iy, tx, ty) != exp:
            probs.append("%dx%d tile %s: rectangle %s, reference %s" % (w, h, key, (rw, rh, ix, iy, tx, ty), exp))
        if not (1 <= rw and 1 <= rh and 0 <= tx and tx + rw <= 256 and 0 <= ty and ty + rh <= 256 and 0 <= ix and ix + rw <= iw and 0 <= iy and iy + rh <= ih):
            probs.append("%dx%d tile %s: rectangle outside tile or image" % (w, h, key))
        area += rw * rh
    if seen != exp_tiles:
        probs.append("%dx%d: populated tiles differ from reference: %s" % (w, h, sorted(seen ^ exp_tiles)[:5]))
    if area != iw * ih:
        probs.append("%dx%d: rectangles cover %d pixels, image has %d" % (w, h, area, iw * ih))
    if t.count_populated_positions() != len(rects):
        probs.append("%dx%d: count_populated_positions=%d, generated %d" % (w, h, t.count_populated_positions(), len(rects)))
    return len(rects)


def case_geom(spec):
    from toasty.study import StudyTiling

    probs = []
    n = 0
    npix = 0
    nrect = 0
    for w in range(spec["w0"], spec["w1"]):
        for h in spec["hs"]:
            g = ref_study.geometry(w, h)
            t = StudyTiling(w, h)
            n += 1
            if (t._p2n, t._tile_levels, t._img_gx0, t._img_gy0) != (g["p2n"], g["levels"], g["gx0"], g["gy0"]):
                probs.append("%dx%d: (p2n, levels, gx0, gy0)=%s, reference %s" % (w, h, (t._p2n, t._tile_levels, t._img_gx0, t._img_gy0), (g["p2n"], g["levels"], g["gx0"], g["gy0"])))
            if t.n_deepest_layer_tiles() != 4 ** g["levels"]:
                probs.append("%dx%d: n_deepest_layer_tiles" % (w, h))
            nrect += _check_tiling(t, w, h, g, g["gx0"], g["gy0"], w, h, probs)
            pts = {(0, 0), (w - 1, 0), (0, h - 1), (w - 1, h - 1), (w // 2, h // 2), ((w * 7) // 13, (h * 5) // 11)}
            for bx in range(256 - g["gx0"] % 256, w, 256):
                pts |= {(bx, 0), (bx - 1, h - 1)}
            for by in range(256 - g["gy0"] % 256, h, 256):
                pts |= {(0, by), (w - 1, by - 1)}
            for (ix, iy) in pts:
                if 0 <= ix < w and 0 <= iy < h:
                    got = tuple(int(v) for v in t.image_to_tile(ix, iy))
                    npix += 1
                    if got != ref_study.pixel_slot(g, ix, iy):
                        probs.append("%dx%d: image_to_tile(%d,%d)=%s, reference %s" % (w, h, ix, iy, got, ref_study.pixel_slot(g, ix, iy)))
            if len(probs) > 20:
                break
    r = dict(counters=dict(geom_sizes=n, geom_rectangles=nrect, image_to_tile_lookups=npix), nontrivial=True)
    if probs:
        r.update(status="violation", key="study-geometry", detail="; ".join(probs[:6]))
    return r


def case_sub(spec):
    from toasty.study import StudyTiling

    R = random.Random(spec["seed"])
    W, H = spec["W"], spec["H"]
    g = ref_study.geometry(W, H)
    t = StudyTiling(W, H)
    probs = []
    n = 0
    cands = []
    if spec["seed"] % 2:
        # the parent is used first (enumerated, counted); sub-tilings derived afterwards must not inherit anything from that
        list(t.generate_populated_positions())
        t.count_populated_positions()
    for _ in range(spec["n"]):
        w = R.choice([1, W, max(1, W // 2), R.randrange(1, W + 1)])
        h = R.choice([1, H, max(1, H // 2), R.randrange(1, H + 1)])
        ix = R.choice([0, W - w, R.randrange(0, W - w + 1)])
        iy = R.choice([0, H - h, R.randrange(0, H - h + 1)])
        cands.append((ix, iy, w, h))
    if W * H <= 64:
        cands = [(ix, iy, w, h) for w in range(1, W + 1) for h in range(1, H + 1) for ix in range(W - w + 1) for iy in range(H - h + 1)]
    for (ix, iy, w, h) in cands:
        s = t.compute_for_subimage(ix, iy, w, h)
        n += 1
        if n % 3 == 0:
            # the tiling travels: to a worker process (pickle, as multi-image tiling does), or is copied
            import copy
            import pickle

            how = R.choice(["pickle", "pickle-hi", "copy", "deepcopy"])
            s = dict(pickle=lambda o: pickle.loads(pickle.dumps(o, 2)), **{"pickle-hi": lambda o: pickle.loads(pickle.dumps(o, pickle.HIGHEST_PROTOCOL))},
                     copy=copy.copy, deepcopy=copy.deepcopy)[how](s)
        if s._tile_levels != g["levels"] or s._p2n != g["p2n"]:
            probs.append("sub-tiling of %dx%d changed levels/p2n" % (W, H))
        _check_tiling(s, w, h, g, g["gx0"] + ix, g["gy0"] + iy, w, h, probs)
        gs = dict(g, gx0=g["gx0"] + ix, gy0=g["gy0"] + iy)
        for (px, py) in {(0, 0), (w - 1, h - 1), (w // 2, h // 3)}:
            got = tuple(int(v) for v in s.image_to_tile(px, py))
            if got != ref_study.pixel_slot(gs, px, py):
                probs.append("sub-image (%d,%d,%d,%d) of %dx%d: image_to_tile(%d,%d)=%s ref %s" % (ix, iy, w, h, W, H, px, py, got, ref_study.pixel_slot(gs, px, py)))
        if len(probs) > 10:
            break
    r = dict(counters=dict(subimage_tilings=n), nontrivial=True)
    if probs:
        r.update(status="violation", key="subimage-geometry", detail="; ".join(probs[:6]))
    return r


def make_image(mode, w, h, seed):
    rng = np.random.default_rng(seed)
    if mode == "RGB":
        return rng.integers(1, 256, (h, w, 3), dtype=np.uint8)
    if mode == "RGBA":
        a = rng.integers(1, 256, (h, w, 4), dtype=np.uint8)
        a[..., 3] = rng.integers(1, 256, (h, w), dtype=np.uint8)  # alpha never 0: every image pixel is defined
        return a
    if mode == "F16x3":
        return rng.uniform(0.1, 2.0, (h, w, 3)).astype(np.float16)
    dt = DT[mode]
    if np.dtype(dt).kind == "f":
        a = rng.normal(size=(h, w)).astype(dt)
        k = rng.random()
        if k < 0.15:
            a[:] = np.inf * rng.choice([-1, 1])  # defined everywhere, finite nowhere
        elif k < 0.35:
            # a saturated block and a sliver: some tile may see only non-finite image pixels
            a[: max(1, h // 2), : max(1, w // 3)] = np.inf
            a[:, -1] = -np.inf
        return a
    hi = min(np.iinfo(dt).max, 30000)
    return rng.integers(1, hi, (h, w)).astype(dt)


def read_tile(path, fmt):
    """read with numpy/PIL/astropy directly; returns array in display orientation"""
    if fmt == "npy":
        return np.load(path)
    if fmt == "fits":
        from astropy.io import fits

        return np.array(fits.getdata(path))[::-1]
    from PIL import Image as PI

    return np.asarray(PI.open(path))


def undefined_canvas(mode, P, fmt):
    if mode in ("RGB", "RGBA"):
        return np.zeros((P, P, 4), np.uint8)
    if mode == "F16x3":
        return np.full((P, P, 3), np.nan, np.float16)
    dt = DT[mode]
    return np.full((P, P), np.nan if np.dtype(dt).kind == "f" else 0, dt)


def wtml_info(d):
    root = ET.parse(os.path.join(d, "index_rel.wtml")).getroot()
    iset = next(root.iter("ImageSet"))
    return dict(url=iset.get("Url"), levels=int(iset.get("TileLevels")), ftype=iset.get("FileType"), proj=iset.get("Projection"))


def expand(url, n, x, y):
    return url.replace("{1}", str(n)).replace("{2}", str(x)).replace("{3}", str(y))


def case_pix(spec, workdir):
    from toasty.builder import Builder
    from toasty.image import Image
    from toasty.pyramid import PyramidIO
    from toasty.study import StudyTiling, tile_study_image

    fmt, mode, w, h = spec["fmt"], spec["mode"], spec["w"], spec["h"]
    arr = make_image(mode, w, h, spec["seed"])
    out = os.path.join(workdir, "out")
    entry = spec["entry"]
    R = random.Random(spec["seed"])
    canvas_w, canvas_h, ox, oy = w, h, 0, 0
    if entry == "subimage":
        canvas_w, canvas_h = w + R.choice([0, 1, 200, 300]), h + R.choice([0, 1, 100, 600])
        ox, oy = R.randrange(0, canvas_w - w + 1), R.randrange(0, canvas_h - h + 1)
    g = ref_study.geometry(canvas_w, canvas_h)
    if entry == "cli":
        from toasty import cli

        src = os.path.join(workdir, "in." + ("fits" if fmt == "fits" else "png"))
        if fmt == "fits":
            from astropy.io import fits

            from vlib import fitsgen

            # a study image with a TAN solution; stored bottom-up (the FITS habit) or top-down: displayed image is `arr`
            bu = bool(spec["seed"] & 1)
            fits.PrimaryHDU(arr[::-1] if bu else arr, header=fitsgen.tan_header(w / 2.0, h / 2.0, bottoms_up=bu)).writeto(src)
        else:
            from PIL import Image as PI

            PI.fromarray(arr).save(src)
        cli.entrypoint(["tile-study", "--placeholder-thumbnail", "--outdir", out, src])
    else:
        # a third of the plain API cases use the flat LXY naming scheme (tiles are located through the WTML's template anyway)
        lxy = spec["seed"] % 3 == 1 and not spec.get("prior") and not spec.get("io_fault") and not spec.get("fault")
        pio = PyramidIO(out, default_format=fmt, scheme="LXY") if lxy else PyramidIO(out, default_format=fmt)
        prior = spec.get("prior")
        if prior == "same_dir" and mode in ("RGBA", "F32", "F64", "F16x3"):
            # an earlier, fully defined image of the same size was tiled into this directory through the same entry point
            arr_a = make_image(mode, w, h, spec["seed"] + 1)
            img_a = Image.from_array(arr_a, default_format=fmt)
            if entry == "tile_study_image":
                tile_study_image(img_a, pio)
            elif entry == "builder":
                Builder(pio).tile_base_as_study(img_a)
            else:
                StudyTiling(canvas_w, canvas_h).compute_for_subimage(ox, oy, w, h).tile_image(img_a, pio)
            # ... and the new image is undefined over (at least) one whole tile of the canvas that the old one populated
            inside = [(tx, ty) for (tx, ty) in ref_study.tiles_for_rect(g["gx0"] + ox, g["gy0"] + oy, w, h)
                      if tx * 256 >= g["gx0"] + ox and ty * 256 >= g["gy0"] + oy and (tx + 1) * 256 <= g["gx0"] + ox + w and (ty + 1) * 256 <= g["gy0"] + oy + h]
            for (tx, ty) in R.sample(inside, min(len(inside), R.choice([1, 2]))):
                x0, y0 = tx * 256 - g["gx0"] - ox, ty * 256 - g["gy0"] - oy
                if mode == "RGBA":
                    arr[y0:y0 + 256, x0:x0 + 256, 3] = 0
                else:
                    arr[y0:y0 + 256, x0:x0 + 256] = np.nan
        shared_tiling = None
        if prior == "same_tiling":
            # the tiling object has been applied before, to an image of ANOTHER mode (a frame and its weight map, ...)
            other = dict(F32="F64", F64="F32", I16="I32", I32="I16", U8="I16", RGB="RGBA", RGBA="RGB", F16x3="F32")[mode]
            arr_a = make_image(other, w, h, spec["seed"] + 2)
            shared_tiling = StudyTiling(canvas_w, canvas_h).compute_for_subimage(ox, oy, w, h) if entry == "subimage" else StudyTiling(w, h)
            shared_tiling.tile_image(Image.from_array(arr_a), PyramidIO(os.path.join(workdir, "earlier"), default_format="npy"))
        # the image's own default format is independent of the pyramid's tile format (it may be unset, or of the other parity)
        img_fmt = R.choice([fmt, fmt, None, "fits" if fmt != "fits" else "npy", "png" if mode in ("RGB", "RGBA") and fmt != "png" else fmt])
        img = Image.from_array(arr, default_format=img_fmt)
        b = Builder(pio)
        if spec.get("io_fault"):
            import errno

            tl = sorted(ref_study.tiles_for_rect(g["gx0"] + ox, g["gy0"] + oy, w, h))
            ftx, fty = R.choice(tl)
            from vlib import tilegen as _tg

            rel = _tg.tile_relpath((g["levels"], ftx, fty), fmt)
            fired = []
            sched.failpoint("image.py", "save", OSError(errno.EDQUOT, "Disk quota exceeded (injected)"), count=1,
                            when=lambda L: str(L.get("path_or_stream")).endswith(rel), on_fire=lambda: fired.append(1))
            try:
                if entry == "tile_study_image":
                    tile_study_image(img, pio)
                elif entry == "builder":
                    b.tile_base_as_study(img)
                else:
                    StudyTiling(canvas_w, canvas_h).compute_for_subimage(ox, oy, w, h).tile_image(img, pio)
                reported = False
            except OSError:
                reported = True
            finally:
                sched.clear_failpoints()
            if not fired:
                return dict(status="inconclusive", detail="the write of tile (%d,%d) was never reached" % (ftx, fty))
            r = dict(counters={"pix_cases": 1, "io_faults_injected": 1, "io_faults_reported": int(reported)}, nontrivial=True, sample=dict(spec=spec, failing_tile=[ftx, fty]))
            if not reported and not os.path.exists(os.path.join(out, rel)):  # (an implementation that retried and stored the tile would be fine)
                r.update(status="violation", key="study-pixels:write-error-swallowed",
                         detail="tile (%d,%d,%d) could not be stored (EDQUOT inside Image.save) yet %s returned normally: the tile is %s" % (
                             g["levels"], ftx, fty, entry, "missing" if not os.path.exists(os.path.join(out, rel)) else "present"))
            return r
        if shared_tiling is not None:
            shared_tiling.tile_image(img, pio)
            (StudyTiling(canvas_w, canvas_h) if entry == "subimage" else shared_tiling).apply_to_imageset(b.imgset)
        elif entry == "tile_study_image":
            tiling = tile_study_image(img, pio)
            tiling.apply_to_imageset(b.imgset)
        elif entry == "builder":
            b.tile_base_as_study(img)
        else:
            parent = StudyTiling(canvas_w, canvas_h)
            sub = parent.compute_for_subimage(ox, oy, w, h)
            sub.tile_image(img, pio)
            parent.apply_to_imageset(b.imgset)
        b.write_index_rel_wtml()
    info = wtml_info(out)
    probs = []
    if fmt == "fits" and entry == "cli":
        # the loader attaches a (trivial) WCS; the CLI flips to negative parity if needed: the displayed image is `arr` either way
        pass
    if info["levels"] != g["levels"]:
        probs.append("TileLevels=%d, expected %d" % (info["levels"], g["levels"]))
    P = g["p2n"]
    canvas = undefined_canvas(mode, P, fmt)
    gx0, gy0 = g["gx0"] + ox, g["gy0"] + oy
    if mode == "RGB":
        canvas[gy0:gy0 + h, gx0:gx0 + w, :3] = arr
        canvas[gy0:gy0 + h, gx0:gx0 + w, 3] = 255
    else:
        canvas[gy0:gy0 + h, gx0:gx0 + w] = arr
    exp_tiles = ref_study.tiles_for_rect(gx0, gy0, w, h)
    if spec.get("prior") == "same_dir":
        def _any_defined(c):
            if c.ndim == 3 and c.shape[2] == 4:
                return bool((c[..., 3] != 0).any())
            return bool((~np.isnan(c)).any()) if c.dtype.kind == "f" else True

        exp_tiles = {(tx, ty) for (tx, ty) in exp_tiles if _any_defined(canvas[ty * 256:(ty + 1) * 256, tx * 256:(tx + 1) * 256])}
    L = g["levels"]
    ntiles = 0
    for ty in range(P // 256):
        for tx in range(P // 256):
            p = os.path.join(out, expand(info["url"], L, tx, ty))
            ex = os.path.exists(p)
            if ex != ((tx, ty) in exp_tiles):
                probs.append("tile (%d,%d,%d) %s at %s" % (L, tx, ty, "unexpectedly present" if ex else "missing", expand(info["url"], L, tx, ty)))
                continue
            if not ex:
                continue
            ntiles += 1
            t = read_tile(p, fmt)
            ref = canvas[ty * 256:(ty + 1) * 256, tx * 256:(tx + 1) * 256]
            if t.shape != ref.shape or (t.dtype.kind, t.dtype.itemsize) != (ref.dtype.kind, ref.dtype.itemsize):
                probs.append("tile (%d,%d): shape/dtype %s %s vs %s %s" % (tx, ty, t.shape, t.dtype, ref.shape, ref.dtype))
            elif not np.array_equal(t, ref, equal_nan=(ref.dtype.kind == "f")):
                if t.dtype.kind == "f":
                    bad = ~((t == ref) | (np.isnan(t) & np.isnan(ref)))
                else:
                    bad = t != ref
                if mode in ("RGB", "RGBA"):
                    # an undefined pixel is alpha==0 whatever its colour channels hold
                    bad = bad.any(axis=-1) & ~((t[..., 3] == 0) & (ref[..., 3] == 0))
                if bad.any():
                    yy, xx = np.argwhere(bad.reshape(bad.shape[0], bad.shape[1], -1).any(axis=-1))[0]
                    probs.append("tile (%d,%d): %d pixels differ, first at row %d col %d" % (tx, ty, int(bad.sum()), yy, xx))
    # stray files at the deepest level
    nfiles = sum(1 for root, _, fs in os.walk(out) for f in fs if f.endswith("." + fmt))
    if nfiles != len(exp_tiles):
        probs.append("%d tile files on disk, %d expected" % (nfiles, len(exp_tiles)))
    nontriv = len(exp_tiles) >= 2 or (w % 256) or (h % 256)
    r = dict(counters={"pix_cases": 1, "pix_history_" + str(spec.get("prior")): 1, "tiles_read_back": ntiles, "pix_%s_%s" % (fmt, mode): 1, "entry_" + entry: 1}, nontrivial=bool(nontriv),
             sets=dict(fmt_mode=[[fmt, mode]]), sample=dict(spec=spec, tiles=len(exp_tiles), levels=L, url=info["url"]))
    if probs:
        r.update(status="violation", key="study-pixels:" + ("bottom-up" if fmt == "fits" else "top-down"), detail="; ".join(probs[:6]))
    return r


def run_case(spec, workdir):
    if spec["t"] == "geom":
        return case_geom(spec)
    if spec["t"] == "sub":
        return case_sub(spec)
    return case_pix(spec, workdir)


def finish(agg, tier):
    c = agg["counters"]
    if c.get("tiles_read_back", 0) < 50 or agg["sets"].get("fmt_mode", 0) < 15 or c.get("geom_sizes", 0) < 2000:
        return dict(inconclusive="monitors not sufficiently reached: %s" % {k: c.get(k) for k in ("tiles_read_back", "geom_sizes")})
    return {}
