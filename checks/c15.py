"""C15: undefined pixels stay undefined - mask semantics and tile persistence."""
import collections
import os
import random
import subprocess

import numpy as np

from vlib import contracts, tilegen

PROPERTY = "C15"
LEVEL = "exploration"
OPTIMIZED_SAMPLE = (10, 150)  # cases repeated under python -O (quick, thorough)
JOBS = 16
CASE_TIMEOUT = 900
RULE = (
    "'buf' cases: for one image mode, random source images and random prior buffer contents with random rectangle indexers of the kinds the "
    "code base uses (plain slices, negative-step buffer rows, slice(None); paired index arrays for fill) - the real "
    "fill_into_maskable_buffer / update_into_maskable_buffer are compared with an element-wise reference (fill defines exactly the addressed "
    "rectangle; update leaves every pixel outside it and every pixel whose source is undefined bit-identical, defined float/colour sources "
    "replace, non-negative integers keep the larger). 'hist' cases: sequences of {write defined, write fully undefined, read default "
    "none/masked/invalid, update} on one tile position from any prior state, against a file-state model (fully undefined => no file, stale "
    "file removed; absent => None / all-undefined buffer / ValueError; otherwise identical pixels and mode). 'roundtrip': every (lossless "
    "format, mode) pair toasty declares. 'workload' / 'pytest': the same contracts installed on the real methods while toasty's own "
    "workflows (quick) and the repository's whole test suite (thorough) run; evaluations counted per call site. "
    "Non-trivial: a buffer case with both defined and undefined pixels inside the rectangle; distinct by spec."
    ' Also: half of the buffer operations re-use the buffer object of the previous one; persistence histories through one to three Pyra'
    'midIO handles on one directory; two stand-ins for absent tiles alive side by side.'
    ' Round 8: history steps that empty (clear / fill from an undefined source) or re-fill the very object handed out by update_image / read_image and store it; fully defined update sources.'
)
ASSUMPTIONS = ["negative integer pixels and paired-index-array updates are outside the statement (rectangles; zero = undefined)"]
MODES = ["RGB", "RGBA", "U8", "I16", "I32", "F32", "F64", "F16x3"]
PAIRS = [(f, m) for f in ("png", "npy", "fits") for m in tilegen.FMT_MODES[f]]


def cases(tier, seed):
    R = random.Random("c15/%d" % seed)
    out = []
    nb = 5 if tier == "quick" else 250
    for m in MODES:
        for i in range(nb):
            out.append(dict(t="buf", mode=m, n=60 if tier == "quick" else 150, seed=R.randrange(1 << 30)))
    for i in range(150 if tier == "quick" else 3000):
        fmt, mode = PAIRS[i % len(PAIRS)]
        out.append(dict(t="hist", fmt=fmt, mode=mode, steps=R.choice([4, 8, 12]), seed=R.randrange(1 << 30)))
    out.append(dict(t="workload", seed=R.randrange(1 << 30)))
    if tier == "thorough":
        out.append(dict(t="pytest", _timeout=900))
    return out


def rand_image(rng, mode, h, w, frac_undef):
    from toasty.image import Image

    if mode == "RGB":
        a = rng.integers(0, 256, (h, w, 3), dtype=np.uint8)
    elif mode == "RGBA":
        a = rng.integers(0, 256, (h, w, 4), dtype=np.uint8)
        a[..., 3] = np.where(rng.random((h, w)) < frac_undef, 0, rng.integers(1, 256, (h, w)))
    elif mode == "F16x3":
        a = rng.uniform(-3, 3, (h, w, 3)).astype(np.float16)
        m = rng.random((h, w)) < frac_undef
        a[m] = np.nan
        one = rng.random((h, w)) < frac_undef / 3  # only one channel undefined: the pixel is undefined
        a[one, rng.integers(0, 3)] = np.nan
    elif mode in ("F32", "F64"):
        a = rng.normal(size=(h, w)).astype(tilegen.DT[mode])
        a[rng.random((h, w)) < frac_undef] = np.nan
        k = rng.random()
        if k < 0.2:
            a[rng.random((h, w)) < 0.05] = np.inf
        elif k < 0.35:
            a[~np.isnan(a)] = np.inf * rng.choice([-1, 1])  # defined pixels, none of them finite
    else:
        dt = tilegen.DT[mode]
        a = rng.integers(0, min(np.iinfo(dt).max, 30000), (h, w)).astype(dt)
        a[rng.random((h, w)) < frac_undef] = 0
    return Image.from_array(a), a


def rand_rect(R, sh, sw, bh, bw):
    h = R.randrange(1, min(sh, bh) + 1)
    w = R.randrange(1, min(sw, bw) + 1)
    if R.random() < 0.2:
        h, w = min(sh, bh), min(sw, bw)
    sy, sx = R.randrange(0, sh - h + 1), R.randrange(0, sw - w + 1)
    by, bx = R.randrange(0, bh - h + 1), R.randrange(0, bw - w + 1)
    iy, ix = slice(sy, sy + h), slice(sx, sx + w)
    if h == sh and sy == 0 and R.random() < 0.5:
        iy = slice(None)
    k0 = R.random()
    if k0 < 0.15 and sh >= bh:
        # full buffer height, partial width (the right-edge tile of an image whose height is a whole number of tiles)
        h, sy, by = bh, R.randrange(0, sh - bh + 1), 0
        iy = slice(sy, sy + h)
    elif k0 < 0.3 and sw >= bw:
        w, sx, bx = bw, R.randrange(0, sw - bw + 1), 0
        ix = slice(sx, sx + w)
    kind = R.choice(["plain", "plain", "flip", "none"])
    if kind == "flip":
        y1 = by + h - 1
        y0 = by - 1
        byi = slice(y1, None if y0 == -1 else y0, -1)
    else:
        byi = slice(by, by + h)
    bxi = slice(bx, bx + w)
    if kind == "none" and h == bh and w == bw and h == sh and w == sw:
        iy = ix = byi = bxi = slice(None)
    return iy, ix, byi, bxi, kind


def case_buf(spec):
    from toasty.image import ImageMode

    R = random.Random(spec["seed"])
    rng = np.random.default_rng(spec["seed"])
    mode = spec["mode"]
    im = getattr(ImageMode, mode)
    probs = []
    n_fill = n_upd = n_mixed = 0
    buf = None
    n_chained = 0
    for _ in range(spec["n"]):
        sh, sw = R.choice([1, 7, 40, 256]), R.choice([1, 9, 33, 256])
        chained = buf is not None and R.random() < 0.5
        if chained:
            # the SAME buffer object goes through a sequence of fills and updates (as the tilers and samplers re-use theirs):
            # its current contents are the prior state, whatever operations produced them
            n_chained += 1
            snapshot = np.array(buf.asarray())
            sh, sw = min(sh, bh), min(sw, bw)
        else:
            bh, bw = R.choice([(256, 256), (512, 512), (40, 60), (sh, sw)])
            buf = im.make_maskable_buffer(bh, bw)
            prior_img, prior = rand_image(rng, "RGBA" if mode == "RGB" else mode, bh, bw, R.choice([0.0, 0.5, 1.0]))
            b = buf._as_writeable_array()
            b[...] = prior
            snapshot = np.array(b)
        img, src = rand_image(rng, mode, sh, sw, R.choice([0.0, 0.3, 0.9, 1.0]))
        iy, ix, by, bx, kind = rand_rect(R, sh, sw, bh, bw)
        op = R.choice(["fill", "update", "update", "fill_paired"])
        if op == "fill":
            img.fill_into_maskable_buffer(buf, iy, ix, by, bx)
            exp = contracts.reference_fill(src, mode, snapshot.shape, snapshot.dtype, iy, ix, by, bx)
            n_fill += 1
        elif op == "fill_paired":
            k = R.randrange(0, 50)
            piy, pix = rng.integers(0, sh, k), rng.integers(0, sw, k)
            # distinct buffer targets, as the chunk sampler passes (boolean-mask selections)
            flat = rng.choice(bh * bw, size=min(k, bh * bw), replace=False)
            piy, pix = piy[: len(flat)], pix[: len(flat)]
            pby, pbx = flat // bw, flat % bw
            img.fill_into_maskable_buffer(buf, piy, pix, pby, pbx)
            exp = contracts.reference_fill(src, mode, snapshot.shape, snapshot.dtype, piy, pix, pby, pbx)
            n_fill += 1
        else:
            img.update_into_maskable_buffer(buf, iy, ix, by, bx)
            exp = contracts.reference_update(src, mode, snapshot, iy, ix, by, bx)
            n_upd += 1
        got = np.asarray(buf.asarray())
        if exp is None:
            continue
        if not contracts.same(got, exp):
            d = ~((got == exp) | ((got != got) & (exp != exp)))
            yy, xx = np.argwhere(d.reshape(d.shape[0], d.shape[1], -1).any(axis=-1))[0]
            rows = contracts._rows(by, bh) if isinstance(by, slice) else None
            inside = rows is not None and yy in rows and xx in contracts._rows(bx, bw)
            probs.append(("%s:%s" % (op, "inside-rectangle" if inside else "outside-rectangle"),
                          "%s %s src %dx%d buf %dx%d indexers %s: %d elements differ from the element-wise reference, first at buffer row %d col %d (got %s, expected %s)" % (
                              op, mode, sh, sw, bh, bw, (iy, ix, by, bx), int(d.sum()), yy, xx, got[yy, xx], exp[yy, xx])))
        if op == "update":
            n_mixed += 1
        if len(probs) > 5:
            break
    r = dict(counters={"fill_cases": n_fill, "update_cases": n_upd, "ops_on_a_reused_buffer": n_chained, "buf_mode_" + mode: 1}, nontrivial=n_mixed > 0, sample=dict(spec=spec))
    if probs:
        keys = sorted({k for k, _ in probs})
        r.update(status="violation", key="mask-semantics:" + "+".join(keys), detail="; ".join(t for _, t in probs[:4]))
    return r


def indep_undefined(a, mode):
    if mode in ("F32", "F64", "F16x3"):
        return bool(np.isnan(a).all())
    if mode == "RGBA":
        return bool((a[..., 3] == 0).all())
    return False


def case_hist(spec, workdir):
    from toasty.image import Image, ImageMode
    from toasty.pyramid import Pos, PyramidIO

    R = random.Random(spec["seed"])
    rng = np.random.default_rng(spec["seed"])
    fmt, mode = spec["fmt"], spec["mode"]
    base = os.path.join(workdir, "pyr")
    # the pyramid's default format may differ from the format the caller names explicitly in every call
    explicit = R.random() < 0.4
    dflt = fmt if not explicit else R.choice([f for f in ("png", "npy", "fits") if f != fmt])
    # one to three handles on the same directory (other workers, a later run): every step goes through one of them
    handles = [PyramidIO(base, default_format=dflt) for _ in range(R.choice([1, 2, 2, 3]))]
    pio = handles[0]
    fkw = dict(format=fmt) if explicit else {}
    pos = Pos(2, R.randrange(4), R.randrange(4))
    im = getattr(ImageMode, mode)
    probs = []
    bystander = None
    if explicit and mode not in ("RGB",):
        # an unrelated, defined tile in the DEFAULT format at the same position: nothing done in format `fmt` may touch it
        bmode = dict(png="RGBA", npy="F32", fits="F32")[dflt]
        _, ba = rand_image(rng, bmode, 256, 256, 0.2)
        tilegen.write_tile(base, tuple(pos), dflt, ba[::-1] if dflt == "fits" else ba)
        bystander = (dflt, ba)
    model = None  # array in storage orientation or None
    # prior state
    prior = R.choice(["none", "valid", "otherformat"])
    if prior == "valid":
        img, a = rand_image(rng, mode, 256, 256, 0.3)
        if not indep_undefined(a, mode):
            tilegen.write_tile(base, tuple(pos), fmt, a[::-1] if fmt == "fits" else a)
            model = a
    elif prior == "otherformat":
        other = [f for f in ("npy", "png", "fits") if f not in (fmt, dflt)][0]
        oa = rng.integers(0, 255, (256, 256, 4), dtype=np.uint8) if other == "png" else np.ones((256, 256), np.float32)
        tilegen.write_tile(base, tuple(pos), other, oa)
    path = os.path.join(base, tilegen.tile_relpath(tuple(pos), fmt))
    ops = []
    for step in range(spec["steps"]):
        op = R.choice(["write", "write", "write_masked", "read_none", "read_masked", "read_bad", "update", "update", "update", "update_clear", "update_fill", "reread_empty_write"])
        if mode == "RGB" and op in ("write_masked", "update_clear", "update_fill", "reread_empty_write"):
            op = "write"
        ops.append(op)
        pio = R.choice(handles)
        if op == "write":
            img, a = rand_image(rng, mode, 256, 256, R.choice([0.0, 0.5, 0.99]))
            pio.write_image(pos, Image.from_array(a.copy(), default_format=fmt), **fkw)
            model = None if indep_undefined(a, mode) else a
        elif op == "write_masked":
            buf = im.make_maskable_buffer(256, 256)
            buf.clear()
            pio.write_image(pos, buf, **fkw)
            # integer tiles have no unambiguous undefined value (zero is also data; toasty declares them never completely
            # masked): the "never stored" clause is demanded for NaN / alpha-0 modes only
            model = None if indep_undefined(np.asarray(buf.asarray()), "RGBA" if mode == "RGB" else mode) else np.array(buf.asarray())
        elif op in ("read_none", "read_masked", "read_bad"):
            try:
                if op == "read_none":
                    got = pio.read_image(pos, default="none", **fkw)
                elif op == "read_masked":
                    got = pio.read_image(pos, default="masked", masked_mode=im, **fkw)
                else:
                    got = pio.read_image(pos, default="nonsense", **fkw)
                raised = None
            except ValueError as e:
                got, raised = None, e
            if model is None:
                if op == "read_none" and (got is not None or raised):
                    probs.append(("read-absent", "step %d: read(default none) of an absent tile returned %r / raised %r" % (step, got, raised)))
                if op == "read_masked":
                    if raised or got is None:
                        probs.append(("read-absent", "step %d: read(default masked) of an absent tile gave %r / %r" % (step, got, raised)))
                    else:
                        ga = np.asarray(got.asarray())
                        ma = "RGBA" if mode == "RGB" else mode
                        if ga.shape[:2] != (256, 256) or not indep_undefined(ga, ma) and ma in ("F32", "F64", "F16x3", "RGBA") or (ma in ("U8", "I16", "I32") and ga.any()):
                            probs.append(("read-absent", "step %d: read(default masked) did not return an all-undefined 256x256 buffer" % step))
                if op == "read_bad" and raised is None:
                    probs.append(("read-absent", "step %d: read with an invalid default of an absent tile did not raise ValueError" % step))
            else:
                if raised or got is None:
                    probs.append(("read-present", "step %d: %s of an existing tile gave %r / %r" % (step, op, got, raised)))
                else:
                    ga = np.asarray(got.asarray())
                    if got.mode.name != mode or ga.shape != model.shape or not np.array_equal(ga, model, equal_nan=model.dtype.kind == "f"):
                        probs.append(("roundtrip", "step %d: tile read back differs (mode %s vs %s, %s)" % (step, got.mode.name, mode, "pixels differ" if ga.shape == model.shape else "shape %s" % (ga.shape,))))
        elif op in ("update_clear", "update_fill"):
            # the tile object handed out by update_image (loaded from the file when there is one - it then carries whatever
            # the loader recorded about it) is emptied, or re-filled from a source rectangle, and goes back to the store
            img, a = rand_image(rng, mode, 256, 256, R.choice([0.0, 0.3, 1.0, 1.0]))
            rect = (slice(0, R.choice([256, 100])), slice(0, R.choice([256, 60])))
            with pio.update_image(pos, masked_mode=img.mode, default="masked", **fkw) as basis:
                if op == "update_clear":
                    # clear() is documented for writable (not PIL-backed) images only; png tiles are emptied by a fill from
                    # an entirely undefined source instead
                    if fmt == "png" or R.random() < 0.4:
                        und = Image.from_array(tilegen.undefined_like(a, (256, 256)))
                        und.fill_into_maskable_buffer(basis, slice(None), slice(None), slice(None), slice(None))
                    else:
                        basis.clear()
                    new = tilegen.undefined_like(a, (256, 256))
                else:
                    img.fill_into_maskable_buffer(basis, rect[0], rect[1], rect[0], rect[1])
                    new = contracts.reference_fill(a, mode, (256, 256) + a.shape[2:], a.dtype, rect[0], rect[1], rect[0], rect[1])
            model = None if indep_undefined(new, mode) else new
        elif op == "reread_empty_write":
            # read the stored tile, empty that very object (clear, or a fill from an entirely undefined source) and store it
            got = pio.read_image(pos, default="masked", masked_mode=im, **fkw)
            if fmt != "png" and R.random() < 0.5:
                got.clear()
            else:
                img = Image.from_array(tilegen.undefined_like(np.asarray(got.asarray()), (256, 256)))
                img.fill_into_maskable_buffer(got, slice(0, 90), slice(0, 256), slice(10, 100), slice(0, 256))
            pio.write_image(pos, got, **fkw)
            ga = np.asarray(got.asarray())
            model = None if indep_undefined(ga, mode) else np.array(ga)
        else:
            img, a = rand_image(rng, mode, 256, 256, R.choice([0.0, 0.0, 0.3, 0.8, 1.0]))
            if mode == "RGB":
                # an RGB source updates an RGBA buffer; an existing 3-channel tile is not a maskable buffer (documented limitation): skip
                ops[-1] = "update_skipped"
                continue
            with pio.update_image(pos, masked_mode=img.mode, default="masked", **fkw) as basis:
                img.update_into_maskable_buffer(basis, slice(None), slice(None), slice(None), slice(None))
            prior_a = model if model is not None else tilegen.undefined_like(a, (256, 256))
            new = contracts.reference_update(a, mode, np.array(prior_a), slice(None), slice(None), slice(None), slice(None))
            model = None if indep_undefined(new, mode) else new
        # file state after every step
        ex = os.path.exists(path)
        if ex != (model is not None):
            probs.append(("file-state", "step %d (%s): tile file exists=%s but the tile is %s" % (step, ops[-1], ex, "defined" if model is not None else "entirely undefined / absent")))
            break
        if ex:
            disk = tilegen.read_tile(base, tuple(pos), fmt)
            disk = disk[::-1] if fmt == "fits" else disk
            if disk.shape != model.shape or not np.array_equal(disk, model, equal_nan=model.dtype.kind == "f"):
                probs.append(("file-content", "step %d (%s): file content differs from the model (independent reader)" % (step, ops[-1])))
                break
        if bystander is not None:
            bd = tilegen.read_tile(base, tuple(pos), bystander[0])
            if bd is None:
                probs.append(("bystander-destroyed", "step %d (%s in format %s): the unrelated %s tile at the same position was removed" % (step, ops[-1], fmt, bystander[0])))
                break
            bd = bd[::-1] if bystander[0] == "fits" else bd
            if not np.array_equal(bd, bystander[1], equal_nan=bystander[1].dtype.kind == "f"):
                probs.append(("bystander-destroyed", "step %d (%s in format %s): the unrelated %s tile at the same position was modified" % (step, ops[-1], fmt, bystander[0])))
                break
    # two stand-ins for ABSENT tiles obtained from one handle and alive at the same time (an image straddling a tile
    # boundary, several missing children read as undefined): they are two buffers, not one
    if mode != "RGB":
        try:
            h0 = handles[0]
            pa, pb = Pos(3, 7, 7), Pos(3, 6, 7)
            ba = h0.read_image(pa, default="masked", masked_mode=im, **fkw)
            img2, a2 = rand_image(rng, mode, 256, 256, 0.0)
            img2.update_into_maskable_buffer(ba, slice(0, 40), slice(0, 50), slice(100, 140), slice(60, 110))
            keep = np.array(ba.asarray())
            bb = h0.read_image(pb, default="masked", masked_mode=im, **fkw)
            ma = "RGBA" if mode == "RGB" else mode
            if not indep_undefined(np.asarray(bb.asarray()), ma) and ma in ("F32", "F64", "F16x3", "RGBA") or (ma in ("U8", "I16", "I32") and np.asarray(bb.asarray()).any()):
                probs.append(("absent-stand-ins-aliased", "a second absent tile read as undefined is not all-undefined while the first one's stand-in is alive and modified"))
            img2.update_into_maskable_buffer(bb, slice(100, 130), slice(0, 20), slice(0, 30), slice(200, 220))
            now = np.array(ba.asarray())
            if now.shape != keep.shape or not np.array_equal(now, keep, equal_nan=keep.dtype.kind == "f"):
                probs.append(("absent-stand-ins-aliased", "reading / updating the stand-in of another absent tile changed the buffer obtained for the first one"))
        except ValueError:
            pass
    r = dict(counters={"histories": 1, "history_steps": len(ops), "pair_%s_%s" % (fmt, mode): 1, "histories_explicit_format": int(explicit), "histories_several_handles": int(len(handles) > 1)}, nontrivial=len(set(ops)) >= 3,
             sets=dict(fmt_mode=[[fmt, mode]]), sample=dict(spec=spec, prior=prior, ops=ops))
    if probs:
        keys = sorted({k for k, _ in probs})
        r.update(status="violation", key="persistence:" + "+".join(keys), detail="; ".join(t for _, t in probs[:4]) + "; ops=%s prior=%s" % (ops, prior))
    return r


def case_workload(spec, workdir):
    """toasty's own workflows with the contracts installed on the real methods"""
    from toasty import toast
    from toasty.builder import Builder
    from toasty.collection import SimpleFitsCollection
    from toasty.image import Image
    from toasty.merge import averaging_merger, cascade_images
    from toasty.multi_tan import MultiTanProcessor
    from toasty.pyramid import PyramidIO
    from toasty.study import tile_study_image

    from vlib import fitsgen

    rng = np.random.default_rng(spec["seed"])
    log = os.path.join(workdir, "contracts.log")
    contracts.install(log)
    try:
        for fmt, arr in (("fits", rng.normal(size=(600, 700)).astype(np.float32)), ("png", rng.integers(0, 255, (300, 520, 3), dtype=np.uint8)), ("npy", rng.integers(0, 200, (513, 257)).astype(np.int16))):
            pio = PyramidIO(os.path.join(workdir, "study-" + fmt), default_format=fmt)
            t = tile_study_image(Image.from_array(arr, default_format=fmt), pio)
            cascade_images(pio, t._tile_levels, averaging_merger, parallel=1)
        mosaic = rng.normal(size=(500, 640)).astype(np.float32)
        mosaic[rng.random(mosaic.shape) < 0.2] = np.nan
        ind = os.path.join(workdir, "in")
        os.makedirs(ind)
        paths = [fitsgen.write_piece(os.path.join(ind, "p%d.fits" % i), mosaic, r, (320.0, 250.0), bottoms_up=True) for i, r in enumerate([(0, 0, 400, 500), (300, 0, 340, 300), (350, 250, 290, 250)])]
        pio = PyramidIO(os.path.join(workdir, "mtan"), default_format="fits")
        b = Builder(pio)
        m = MultiTanProcessor(SimpleFitsCollection(paths))
        m.compute_global_pixelization(b)
        m.tile(pio, parallel=1)
        b.cascade(parallel=1)

        def s1(lon, lat):
            v = np.sin(lon) * np.cos(lat)
            v[np.cos(3 * lon) > 0.2] = np.nan
            return v

        def s2(lon, lat):
            v = np.cos(lon) + lat
            v[np.cos(3 * lon) <= 0.2] = np.nan
            return v

        pio = PyramidIO(os.path.join(workdir, "toast"), default_format="npy")
        toast.sample_layer_filtered(pio, lambda t: True, s1, 1, parallel=1)
        toast.sample_layer_filtered(pio, lambda t: True, s2, 1, parallel=1)
        cascade_images(pio, 1, averaging_merger, parallel=1)
    finally:
        contracts.uninstall()
    c, sites, viol = contracts.summarize(log)
    r = dict(counters={"contract_evals_workload": sum(v for k, v in c.items() if k.startswith("evals_")), **{"workload_" + k: v for k, v in c.items()}}, nontrivial=True,
             sets=dict(contract_sites=sorted(sites)), sample=dict(sites=dict(sites)))
    if viol:
        r.update(status="violation", key="contract:" + viol[0]["fn"], detail="; ".join("%s at %s (%s): %s" % (v["fn"], v["site"], v.get("mode"), v["detail"]) for v in viol[:4]))
    elif r["counters"]["contract_evals_workload"] == 0:
        r.update(status="inconclusive", detail="contracts were never evaluated")
    return r


def case_pytest(spec, workdir):
    """the repository's own test suite with the contracts on (thorough tier)"""
    from vlib.core import VERIF, repo_root

    log = os.path.join(workdir, "contracts-pytest.log")
    env = dict(os.environ, VERIF_CONTRACT_LOG=log, PYTHONPATH=VERIF + os.pathsep + os.environ.get("PYTHONPATH", ""))
    p = subprocess.run(["/venv/bin/python", "-m", "pytest", "-q", "-p", "no:cacheprovider", "-p", "vlib.pytest_contracts", "--timeout=600", os.path.join(repo_root(), "toasty")],
                       cwd=repo_root(), env=env, capture_output=True, text=True, timeout=850)
    c, sites, viol = contracts.summarize(log)
    n = sum(v for k, v in c.items() if k.startswith("evals_"))
    r = dict(counters={"contract_evals_pytest": n, **{"pytest_" + k: v for k, v in c.items()}}, nontrivial=True,
             sets=dict(contract_sites_pytest=sorted(sites)), sample=dict(sites=dict(sites), pytest_tail=p.stdout.strip().splitlines()[-1:] if p.stdout else []))
    if viol:
        r.update(status="violation", key="contract-under-tests:" + viol[0]["fn"], detail="; ".join("%s at %s (%s): %s" % (v["fn"], v["site"], v.get("mode"), v["detail"]) for v in viol[:4]))
    elif n == 0:
        r.update(status="inconclusive", detail="contracts were never evaluated under the repository's tests: %s" % p.stdout[-300:])
    return r


def run_case(spec, workdir):
    t = spec["t"]
    if t == "buf":
        return case_buf(spec)
    if t == "hist":
        return case_hist(spec, workdir)
    if t == "workload":
        return case_workload(spec, workdir)
    return case_pytest(spec, workdir)


def finish(agg, tier):
    c = agg["counters"]
    miss = [m for m in MODES if c.get("buf_mode_" + m, 0) < 1]
    if miss or c.get("update_cases", 0) < 500 or c.get("fill_cases", 0) < 300 or c.get("histories", 0) < 30 or c.get("contract_evals_workload", 0) < 20:
        return dict(inconclusive="not reached: %s %s" % (miss, {k: c.get(k) for k in ("update_cases", "fill_cases", "histories", "contract_evals_workload")}))
    if tier == "thorough" and c.get("contract_evals_pytest", 0) < 1:
        return dict(inconclusive="contracts never evaluated under the repository's tests")
    return {}
