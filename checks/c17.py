"""C17: the WTML and the returned data-set description match the files on disk."""
import collections
import os
import random
import shutil
import xml.etree.ElementTree as ET

import numpy as np

from vlib import evlog, fitsgen, instr_mp, models
from vlib import ref_quadtree as rq

PROPERTY = "C17"
LEVEL = "exploration"
OPTIMIZED_SAMPLE = (5, 40)  # cases repeated under python -O (quick, thorough)
JOBS = 12
CASE_TIMEOUT = 600
EXTS = ("png", "jpg", "npy", "fits")
RULE = (
    "'template' cases: for both naming schemes and all formats, every position to depth 6 (exhaustive) and sampled to depth 20: the WWT "
    "convention expansion ({1}=level,{2}=x,{3}=y) of the template string equals the relative path PyramidIO uses, and is injective. "
    "'workflow' cases: one real workflow emitting index_rel.wtml (tile-study with png/jpg/fits input and --fits-wcs, tile-allsky, "
    "tile-multi-tan, tile-wwtl, tile_fits in TAN mode (multi-TAN and multi-WCS branches) and TOAST mode, pipeline process-todos with the "
    "LXY scheme), each followed by a cascade. Image.save and PyramidIO.write_image are wrapped to record (position -> path actually "
    "written), independently of tile_path. Oracle: expanding the WTML's Url (parsed with xml.etree) for each written position gives "
    "exactly the written path; distinct positions give distinct paths; no other tile file exists; FileType is the extension; TileLevels "
    "is the deepest populated level. 'history' cases: sequences of tile_fits calls on one output directory (fresh, repeated, repeated "
    "with override): after each call the returned Builder's imgset/place fields equal index_rel.wtml on disk. "
    "Non-trivial: a workflow writing >= 2 tiles, a template block, or a history with >= 2 calls; distinct by spec."
    ' Also: histories with override from another input, an absolutised index.wtml written next to index_rel.wtml, interrupted first run'
    's, and TOAST pyramids with two-digit level numbers.'
    ' Round 8: every format in toasty.image.SUPPORTED_FORMATS; history steps in which tile_fits fails before writing any tile (missing input), followed by reuse.'
    ' Round 9: a quarter of the tile_fits histories use an output directory whose name contains `$NAME` (NAME set in the environment).'
)
ASSUMPTIONS = ["WWT template convention: {1}=level, {2}=x, {3}=y", "HiPS, AstroPix/Djangoplicity network sources and Azure stores are not covered"]
EXHAUSTIVE = {"quick": "template expansion for all positions to depth 6, both schemes", "thorough": "template expansion for all positions to depth 6, both schemes, all four formats"}


def cases(tier, seed):
    R = random.Random("c17/%d" % seed)
    out = []
    for scheme in ("L/Y/YX", "LXY"):
        for fmt in (EXTS if tier == "thorough" else ("png", "fits")):
            out.append(dict(t="template", scheme=scheme, fmt=fmt, seed=R.randrange(1 << 30), nrand=2000 if tier == "quick" else 20000))
        out.append(dict(t="template", scheme=scheme, fmt="ADVERTISED", seed=R.randrange(1 << 30), nrand=500))
    wf = ["study_png", "study_jpg", "study_fits", "study_fitswcs", "allsky", "multi_tan", "wwtl", "tile_fits_tan", "tile_fits_wcs", "tile_fits_toast", "pipeline", "api_study"]
    reps = 2 if tier == "quick" else 50
    for w in wf:
        for i in range(reps if w not in ("pipeline", "wwtl") else (1 if tier == "quick" else 3)):
            out.append(dict(t="workflow", wf=w, par=R.choice([1, 2]), seed=R.randrange(1 << 30)))
    for w_ in ("study_png", "study_fits", "api_study", "study_jpg"):
        for i in range(1 if tier == "quick" else 8):
            out.append(dict(t="workflow", wf=w_, par=1, seed=R.randrange(1 << 30), prior_run=True))
    for i in range(4 if tier == "quick" else 24):
        out.append(dict(t="workflow", wf="api_study", par=1, seed=4 * R.randrange(1 << 20) + [4, 5, 6, 7][i % 4] , small=True))
    seqs = [["fresh", "repeat"], ["fresh", "override", "repeat"], ["fresh", "repeat", "repeat"], ["fresh", "repeat", "override"],
            ["interrupted", "override_smaller", "repeat"], ["interrupted", "override_smaller"],
            ["fresh", "repeat", "override_other", "repeat"], ["fresh", "absolutize", "repeat"], ["fresh", "repeat", "absolutize", "repeat", "override", "repeat"],
            ["fresh", "override_other", "repeat", "override_other", "repeat"],
            ["failed_early", "repeat", "repeat"], ["fresh", "failed_override", "repeat"], ["failed_early", "repeat", "failed_override", "repeat", "repeat"]]
    for i in range(26 if tier == "quick" else 260):
        out.append(dict(t="history", seq=seqs[i % len(seqs)], mode=["tan", "tan", "toast"][i % 3], seed=R.randrange(1 << 30), par=R.choice([1, 2])))
    # a TOAST pyramid more than nine levels deep (arc-second pixels), fresh and reused: level numbers have two digits
    for i in range(2 if tier == "quick" else 12):
        out.append(dict(t="history", seq=[["fresh", "repeat"], ["fresh", "repeat", "override", "repeat"]][i % 2], mode="toast_deep", seed=R.randrange(1 << 30), par=R.choice([1, 2])))
    return out


def expand(url, n, x, y):
    return url.replace("{1}", str(n)).replace("{2}", str(x)).replace("{3}", str(y))


def case_template(spec, workdir):
    if spec["fmt"] == "ADVERTISED":
        # every format the library itself advertises (toasty.image.SUPPORTED_FORMATS) beyond the four this check names: the
        # template and the paths must agree for those too, and a tile written in that format must land on the templated path
        from toasty.image import SUPPORTED_FORMATS, Image
        from toasty.pyramid import Pos, PyramidIO

        agg = dict(counters=dict(advertised_formats=len(SUPPORTED_FORMATS), template_positions=0), nontrivial=True, sample=dict(spec=spec, formats=list(SUPPORTED_FORMATS)))
        for f in SUPPORTED_FORMATS:
            if f in EXTS:
                continue
            r = case_template(dict(spec, fmt=f), os.path.join(workdir, f))
            agg["counters"]["template_positions"] += r["counters"]["template_positions"]
            if r.get("status") == "violation":
                return r
            pio = PyramidIO(os.path.join(workdir, f, "w"), scheme=spec["scheme"], default_format=f)
            from toasty.builder import Builder

            url = Builder(pio).imgset.url
            pio.write_image(Pos(1, 1, 0), Image.from_array(np.full((256, 256, 3), 7, np.uint8)))
            if not os.path.exists(os.path.join(workdir, f, "w", expand(url, 1, 1, 0))):
                return dict(agg, status="violation", key="template-vs-file:advertised-format", detail="format %r: a tile written at (1,1,0) is not at the templated path %r" % (f, expand(url, 1, 1, 0)))
        return agg
    from toasty.builder import Builder
    from toasty.pyramid import Pos, PyramidIO

    R = random.Random(spec["seed"])
    base = os.path.join(workdir, "p")
    pio = PyramidIO(base, scheme=spec["scheme"], default_format=spec["fmt"])
    b = Builder(pio)
    url = b.imgset.url
    probs = []
    if b.imgset.file_type != "." + spec["fmt"]:
        probs.append("file_type %r for format %s" % (b.imgset.file_type, spec["fmt"]))
    if url != pio.get_path_scheme() + "." + spec["fmt"]:
        probs.append("imgset.url %r is not scheme+extension" % url)
    seen = {}
    positions = rq.all_positions(6)
    for _ in range(spec["nrand"]):
        d = R.randrange(7, 21)
        positions.append((d, R.randrange(1 << d), R.randrange(1 << d)))
    # transposed pairs, to catch x/y exchanged
    positions += [(p[0], p[2], p[1]) for p in positions[-200:]]
    for p in positions:
        rel = os.path.relpath(pio.tile_path(Pos(*p), makedirs=False), base)
        e = expand(url, *p)
        if e != rel:
            probs.append("position %s: template expands to %r, tile written at %r" % (p, e, rel))
            if len(probs) > 5:
                break
        if e in seen and seen[e] != p:
            probs.append("positions %s and %s expand to the same path %r" % (seen[e], p, e))
        seen[e] = p
    r = dict(counters=dict(template_positions=len(positions), **{"scheme_" + spec["scheme"].replace("/", ""): 1}), nontrivial=True, sample=dict(spec=spec, url=url))
    if probs:
        r.update(status="violation", key="template-vs-path:" + spec["scheme"], detail="; ".join(probs[:5]))
    return r


_orig = {}


def install_write_recorder():
    """record (position -> path actually written) without relying on tile_path"""
    from toasty.image import Image
    from toasty.pyramid import PyramidIO

    if _orig:
        return
    _orig["save"] = Image.save
    _orig["write_image"] = PyramidIO.write_image

    def save(self, path_or_stream, *a, **k):
        if isinstance(path_or_stream, str):
            evlog.ev("img_save", path=os.path.abspath(path_or_stream))
        return _orig["save"](self, path_or_stream, *a, **k)

    def write_image(self, pos, image, *a, **k):
        evlog.ev("wi_enter", pos=tuple(pos), base=os.path.abspath(self._base_dir))
        try:
            return _orig["write_image"](self, pos, image, *a, **k)
        finally:
            evlog.ev("wi_exit", pos=tuple(pos))

    Image.save = save
    PyramidIO.write_image = write_image


def written_pairs(recs):
    cur = {}
    pairs = []
    for r in recs:
        if r["k"] == "wi_enter":
            cur[r["pid"]] = (tuple(r["pos"]), r["base"])
        elif r["k"] == "wi_exit":
            cur.pop(r["pid"], None)
        elif r["k"] == "img_save" and r["pid"] in cur:
            pairs.append((cur[r["pid"]][0], r["path"], cur[r["pid"]][1]))
    return pairs


def wtml_info(path):
    root = ET.parse(path).getroot()
    iset = next(root.iter("ImageSet"))
    pl = next(root.iter("Place"), None)
    return iset, pl


def verify_outdir(out, recs, probs):
    iset, pl = wtml_info(os.path.join(out, "index_rel.wtml"))
    url, ftype, levels = iset.get("Url"), iset.get("FileType"), int(iset.get("TileLevels"))
    out = os.path.abspath(out)
    pairs = [(p, path) for (p, path, base) in written_pairs(recs) if os.path.abspath(base) == out]
    by_path = {}
    n = 0
    for p, path in pairs:
        if not os.path.exists(path):
            continue  # removed later (e.g. fully undefined after an update)
        rel = os.path.relpath(path, out)
        e = expand(url, *p)
        n += 1
        if e != rel:
            probs.append(("template-vs-file", "tile %s was written at %r but the WTML template %r expands to %r" % (p, rel, url, e)))
        if rel in by_path and by_path[rel] != p:
            probs.append(("path-collision", "positions %s and %s were written to the same file %r" % (by_path[rel], p, rel)))
        by_path[rel] = p
    disk = set()
    for root, _, fs in os.walk(out):
        for f in fs:
            if f.rsplit(".", 1)[-1] in EXTS and f not in ("thumb.jpg",) and not f.endswith(".lock"):
                disk.add(os.path.relpath(os.path.join(root, f), out))
    stray = disk - set(by_path)
    if stray:
        probs.append(("stray-tile-file", "tile-like files not accounted for by any write: %s" % sorted(stray)[:5]))
    exts = {r.rsplit(".", 1)[-1] for r in by_path}
    if exts and (len(exts) != 1 or ftype != "." + next(iter(exts))):
        probs.append(("filetype", "FileType=%r but tiles have extensions %s" % (ftype, sorted(exts))))
    if by_path:
        deepest = max(p[0] for p in by_path.values())
        if levels != deepest:
            probs.append(("tilelevels", "TileLevels=%d but the deepest populated level is %d" % (levels, deepest)))
    return n, len(by_path)


def make_png(path, w, h, rng, mode="RGB"):
    from PIL import Image as PI

    a = rng.integers(0, 255, (h, w, 3 if mode == "RGB" else 4), dtype=np.uint8)
    PI.fromarray(a).save(path)


def run_workflow(spec, workdir):
    import toasty
    from toasty import TilingMethod, cli

    R = random.Random(spec["seed"])
    rng = np.random.default_rng(spec["seed"])
    wf = spec["wf"]
    out = os.path.join(workdir, "out")
    par = spec["par"]
    w, h = R.choice([300, 513, 700, 1100]), R.choice([200, 300, 520])
    if spec.get("small"):
        w, h = R.choice([200, 256, 120]), R.choice([150, 256, 90])  # a single-tile image: depth 0
    casc = True

    def go():
        nonlocal out, casc
        if wf in ("study_png", "study_jpg"):
            src = os.path.join(workdir, "in." + ("png" if wf == "study_png" else "jpg"))
            if wf == "study_png":
                make_png(src, w, h, rng, R.choice(["RGB", "RGBA"]))
            else:
                from PIL import Image as PI

                PI.fromarray(rng.integers(0, 255, (h, w, 3), dtype=np.uint8)).save(src, quality=90)
            cli.entrypoint(["tile-study", "--placeholder-thumbnail", "--outdir", out, src])
        elif wf == "study_fits":
            src = os.path.join(workdir, "in.fits")
            fitsgen.write_piece(src, rng.normal(size=(h, w)).astype(np.float32), (0, 0, w, h), (w / 2, h / 2), bottoms_up=R.random() < 0.5)
            cli.entrypoint(["tile-study", "--placeholder-thumbnail", "--outdir", out, src])
        elif wf == "study_fitswcs":
            src = os.path.join(workdir, "in.png")
            make_png(src, w, h, rng)
            wsrc = os.path.join(workdir, "wcs.fits")
            fitsgen.write_piece(wsrc, np.zeros((h, w), np.float32), (0, 0, w, h), (w / 2, h / 2), bottoms_up=True)
            cli.entrypoint(["tile-study", "--placeholder-thumbnail", "--fits-wcs", wsrc, "--outdir", out, src])
        elif wf == "allsky":
            src = os.path.join(workdir, "map.png")
            make_png(src, 128, 64, rng)
            cli.entrypoint(["tile-allsky", "--placeholder-thumbnail", "--outdir", out, "-j", str(par), "--projection", R.choice(["plate-carree", "plate-carree-planet"]), src, str(R.choice([1, 2]))])
        elif wf in ("multi_tan", "tile_fits_tan"):
            W, H = 900, 600
            m = rng.normal(size=(H, W)).astype(np.float32)
            ind = os.path.join(workdir, "in")
            os.makedirs(ind)
            paths = [fitsgen.write_piece(os.path.join(ind, "p%d.fits" % i), m, r, (W / 2, H / 2), bottoms_up=True) for i, r in enumerate([(0, 0, 500, 600), (450, 0, 450, 600)])]
            if wf == "multi_tan":
                cli.entrypoint(["tile-multi-tan", "--outdir", out, "-j", str(par)] + paths)
            else:
                toasty.tile_fits(paths, out_dir=out, parallel=par, override=True)
                casc = False
        elif wf == "tile_fits_wcs":
            ind = os.path.join(workdir, "in")
            os.makedirs(ind)
            paths = []
            for i in range(2):
                m = rng.normal(size=(260, 300)).astype(np.float32)
                paths.append(fitsgen.write_piece(os.path.join(ind, "q%d.fits" % i), m, (0, 0, 300, 260), (150, 130), crval=(50.0 + 0.2 * i, 30.0 + 0.05 * i), bottoms_up=True))
            toasty.tile_fits(paths, out_dir=out, parallel=par, override=True, tiling_method=TilingMethod.TAN)
            casc = False
        elif wf == "tile_fits_toast":
            ind = os.path.join(workdir, "in")
            os.makedirs(ind)
            m = rng.normal(size=(60, 80)).astype(np.float32)
            cv = (R.uniform(0, 360), R.uniform(-60, 60))
            p = fitsgen.write_piece(os.path.join(ind, "t.fits"), m, (0, 0, 80, 60), (40, 30), scale=0.5, crval=cv, bottoms_up=True)
            if spec["seed"] % 2:
                # a collection of images with different pixel scales, the finer one first
                p2 = fitsgen.write_piece(os.path.join(ind, "fine.fits"), m, (0, 0, 80, 60), (40, 30), scale=0.06, crval=cv, bottoms_up=True)
                p = [p2, p] if spec["seed"] % 4 == 1 else [p, p2]
            toasty.tile_fits(p, out_dir=out, parallel=par, override=True, tiling_method=TilingMethod.TOAST)
            casc = False
        elif wf == "api_study":
            # the Python API with every tile format (incl. jpg tiles, which no command-line workflow produces) and both schemes
            from toasty.builder import Builder
            from toasty.image import Image
            from toasty.merge import averaging_merger, cascade_images
            from toasty.pyramid import PyramidIO

            fmt = ["jpg", "png", "npy", "jpg"][spec["seed"] % 4]
            scheme = ["L/Y/YX", "LXY"][(spec["seed"] // 4) % 2]
            arr = rng.integers(0, 255, (h, w, 3), dtype=np.uint8)
            pio = PyramidIO(out, scheme=scheme, default_format=fmt)
            b = Builder(pio)
            b.tile_base_as_study(Image.from_array(arr))
            b.write_index_rel_wtml()
            if b.imgset.tile_levels >= 1:
                cascade_images(pio, b.imgset.tile_levels, averaging_merger, parallel=par)
            casc = False
        elif wf == "wwtl":
            from wwt_data_formats.filecabinet import FileCabinetWriter

            from vlib.core import repo_root

            tdir = os.path.join(repo_root(), "toasty", "tests")
            fw = FileCabinetWriter()
            fw.add_file_with_data("55cb0cce-c44a-4a44-a509-ea66fce643a5.wwtxml", open(os.path.join(tdir, "layercontainer.wwtxml"), "rb").read())
            fw.add_file_with_data("55cb0cce-c44a-4a44-a509-ea66fce643a5\\7ecb6411-e4ee-4dfa-90ef-77d6f486c7d2.jpg", open(os.path.join(tdir, "NGC253ALMA.jpg"), "rb").read())
            wp = os.path.join(workdir, "image.wwtl")
            with open(wp, "wb") as f:
                fw.emit(f)
            cli.entrypoint(["tile-wwtl", "--placeholder-thumbnail", "--outdir", out, wp])
        elif wf == "pipeline":
            from toasty import pipeline
            from toasty.pipeline import astropix

            from vlib.core import repo_root

            tdir = os.path.join(repo_root(), "toasty", "tests")

            class LocalSrc(astropix.AstroPixImageSource):
                def query_candidates(self):
                    item = {"creator": "Fake Observatory", "title": "Test", "description": "An image.", "object_name": ["NGC 253"], "resource_url": "http://example.com/i.jpg",
                            "reference_url": "https://example.com/", "image_id": "test1", "image_credit": "x", "wcs_coordinate_frame": "ICRS", "wcs_equinox": "J2000",
                            "wcs_reference_value": ["187.70593075", "12.39112325"], "wcs_reference_dimension": ["2166.0", "2129.0"], "wcs_reference_pixel": ["3738.9937831", "3032.00448074"],
                            "wcs_scale": ["-5.91663506907e-14", "5.91663506907e-14"], "wcs_rotation": "0", "wcs_projection": "TAN", "wcs_quality": "Full", "wcs_notes": "FAKE",
                            "publisher": "FAKE", "publisher_id": "fake", "resource_id": "test1", "last_updated": "2019-04-08T14:00:38.128143", "metadata_version": "1.1",
                            "image_width": "7416", "image_height": "4320", "image_max_boundry": "7416", "astropix_id": 21642}
                    yield astropix.AstroPixCandidateInput(item)

                def fetch_candidate(self, unique_id, cand_data_stream, cachedir):
                    shutil.copy(os.path.join(tdir, "NGC253ALMA.jpg"), os.path.join(cachedir, "image.jpg"))

            pipeline.IMAGE_SOURCE_CLASS_LOADERS["_local_test_astropix"] = lambda: LocalSrc
            repo = os.path.join(workdir, "repo")
            work = os.path.join(workdir, "work")
            os.makedirs(repo)
            shutil.copy(os.path.join(tdir, "toasty-pipeline-config.yaml"), repo)
            cli.entrypoint(["pipeline", "init", "--local", repo, work])
            cli.entrypoint(["pipeline", "refresh", "--workdir", work])
            cli.entrypoint(["pipeline", "fetch", "--workdir", work, "fake_test1"])
            cli.entrypoint(["pipeline", "process-todos", "--workdir", work])
            out = os.path.join(work, "processed", "fake_test1")
            casc = False

    log = os.path.join(workdir, "log")
    evlog.open_log(log)
    install_write_recorder()
    instr_mp.install("natural", spec["seed"])
    if spec.get("prior_run") and wf in ("study_png", "study_jpg", "study_fits", "api_study"):
        # the output directory already holds the (shallower) pyramid and the index_rel.wtml of an EARLIER, smaller image
        w_, h_ = w, h
        w, h = 200, 150
        go()
        for fn_ in ("in.png", "in.jpg", "in.fits"):
            if os.path.exists(os.path.join(workdir, fn_)):
                os.unlink(os.path.join(workdir, fn_))
        w, h = max(w_, 513), max(h_, 300)
        # (the earlier run's tiles are cleared away; its index_rel.wtml and other metadata stay where they are)
        for root_, _d, fs_ in os.walk(out):
            for f_ in fs_:
                if f_.rsplit(".", 1)[-1] in ("png", "jpg", "fits", "npy") and ("_" in f_ or f_.startswith("L")) and not f_.startswith("thumb"):
                    os.unlink(os.path.join(root_, f_))
        evlog.open_log(log)  # only the second run's writes are compared with the files
        install_write_recorder()
    go()
    probs = []
    recs = evlog.read(log)
    n1, nt1 = verify_outdir(out, recs, probs)
    if casc:
        iset, _ = wtml_info(os.path.join(out, "index_rel.wtml"))
        lv = int(iset.get("TileLevels"))
        if lv >= 1:
            from toasty import cli as _cli

            _cli.entrypoint(["cascade", "--start", str(lv), "-j", str(par), out])
            recs = evlog.read(log)
            p2 = []
            n1, nt1 = verify_outdir(out, recs, p2)
            probs += [("after-cascade:" + k, t) for k, t in p2]
    evlog.close_log()
    r = dict(counters={"workflows": 1, "tiles_matched": nt1, "wf_" + wf: 1}, nontrivial=nt1 >= 2, sets=dict(workflow=[wf]), sample=dict(spec=spec, tiles=nt1))
    if probs:
        keys = sorted({k for k, _ in probs})
        r.update(status="violation", key="+".join(keys)[:140], detail="; ".join(t for _, t in probs[:5]))
    return r


def builder_vs_wtml(b, out, probs, label):
    iset, pl = wtml_info(os.path.join(out, "index_rel.wtml"))
    i = b.imgset

    def num(k, v, attr, el=iset, default="0"):
        w = el.get(attr, default)
        try:
            if abs(float(v) - float(w)) <= 1e-9 * max(abs(float(v)), abs(float(w)), 1e-12):
                return
        except (TypeError, ValueError):
            pass
        probs.append(("builder-vs-wtml", "%s: returned %s=%r but index_rel.wtml has %s=%r" % (label, k, v, attr, w)))

    for k, v, attr in (("imgset.url", i.url, "Url"), ("imgset.file_type", i.file_type, "FileType"), ("imgset.projection", getattr(i.projection, "value", i.projection), "Projection")):
        if str(v) != str(iset.get(attr)):
            probs.append(("builder-vs-wtml", "%s: returned %s=%r but index_rel.wtml has %s=%r" % (label, k, v, attr, iset.get(attr))))
    num("imgset.tile_levels", i.tile_levels, "TileLevels")
    num("imgset.center_x", i.center_x, "CenterX")
    num("imgset.center_y", i.center_y, "CenterY")
    num("imgset.base_degrees_per_tile", i.base_degrees_per_tile, "BaseDegreesPerTile")
    num("imgset.rotation_deg", i.rotation_deg, "Rotation")
    num("imgset.offset_x", i.offset_x, "OffsetX")
    num("imgset.offset_y", i.offset_y, "OffsetY")
    num("imgset.data_min", i.data_min, "DataMin")
    num("imgset.data_max", i.data_max, "DataMax")
    if pl is not None:
        num("place.ra_hr", b.place.ra_hr, "RA", pl)
        num("place.dec_deg", b.place.dec_deg, "Dec", pl)
        num("place.zoom_level", b.place.zoom_level, "ZoomLevel", pl)


def case_history(spec, workdir):
    import toasty
    from toasty import TilingMethod

    R = random.Random(spec["seed"])
    rng = np.random.default_rng(spec["seed"])
    ind = os.path.join(workdir, "in")
    os.makedirs(ind)
    if spec["mode"] == "tan":
        W, H = R.choice([400, 700]), R.choice([300, 520])
        m = rng.normal(size=(H, W)).astype(np.float32)
        paths = [fitsgen.write_piece(os.path.join(ind, "a.fits"), m, (0, 0, W, H), (W / 2, H / 2), crval=(R.uniform(0, 360), R.uniform(-60, 60)), bottoms_up=True)]
        kw = {}
    else:
        m = rng.normal(size=(60, 80)).astype(np.float32)
        sc = 0.5 if spec["mode"] == "toast" else R.choice([1.3e-3, 6e-4])
        paths = [fitsgen.write_piece(os.path.join(ind, "t.fits"), m, (0, 0, 80, 60), (40, 30), scale=sc, crval=(R.uniform(0, 360), R.uniform(-60, 60)), bottoms_up=True)]
        kw = dict(tiling_method=TilingMethod.TOAST)
    out = os.path.join(workdir, "out") if (R.random() < 0.7 or "override_other" in spec["seq"] or spec["seq"][0] == "failed_early") else None
    if out is not None and spec["seed"] % 4 == 0:
        # an output directory whose NAME contains a `$` and the name of a variable that happens to be set ('$' is an ordinary
        # character in a POSIX file name): it is that directory, literally
        os.environ["TILESX"] = os.path.join(workdir, "elsewhere")
        out = os.path.join(workdir, "$TILESX-out")
    probs = []
    instr_mp.install("natural", spec["seed"])
    calls = 0
    if out is None and spec["seq"][0] == "interrupted":
        out = os.path.join(workdir, "out")

    class Interrupt(BaseException):
        pass

    current = paths
    n_other = 0
    for step in spec["seq"]:
        use = current
        kw2 = dict(kw)
        if step == "absolutize":
            # the publication step of another tool / of `toasty pipeline approve`: index.wtml with absolute URLs is written
            # next to index_rel.wtml (same statements as toasty.pipeline.cli.approve_impl)
            from wwt_data_formats.folder import Folder, make_absolutizing_url_mutator

            f = Folder.from_file(os.path.join(out, "index_rel.wtml"))
            f.mutate_urls(make_absolutizing_url_mutator("https://example.org/data/set%d/" % calls))
            with open(os.path.join(out, "index.wtml"), "wt", encoding="utf8") as f_out:
                f.write_xml(f_out)
            continue
        if step == "override_other":
            # the directory is rebuilt from ANOTHER input (other size, other centre => other depth and astrometry)
            n_other += 1
            other = os.path.join(ind, "other%d.fits" % n_other)
            if spec["mode"] == "tan":
                w2, h2 = R.choice([(120, 100), (1100, 300), (260, 700)])
                fitsgen.write_piece(other, rng.normal(size=(h2, w2)).astype(np.float32), (0, 0, w2, h2), (w2 / 2, h2 / 2), crval=(R.uniform(0, 360), R.uniform(-60, 60)), bottoms_up=True)
            else:
                sc = R.choice([2.0, 0.1])
                fitsgen.write_piece(other, rng.normal(size=(40, 50)).astype(np.float32), (0, 0, 50, 40), (25, 20), scale=sc, crval=(R.uniform(0, 360), R.uniform(-60, 60)), bottoms_up=True)
            use = current = [other]
        if step in ("failed_early", "failed_override"):
            # a call that fails before a single tile is written (one of the input files does not exist): it leaves no pyramid behind - what the
            # NEXT call returns and records is judged
            ls = lambda: sorted(os.path.join(_r, f) for _r, _d, fs in os.walk(out) for f in fs if f.endswith(".fits")) if os.path.isdir(out) else []
            before = ls()
            try:
                toasty.tile_fits([os.path.join(ind, "does-not-exist.fits")] + list(use), out_dir=out, parallel=spec["par"], override=(step == "failed_override"), **kw2)
                probs.append(("missing-input-accepted", "tile_fits returned normally although one input file does not exist"))
            except Exception:
                pass
            calls += 1
            if ls() and ls() != before:
                return dict(status="inconclusive", detail="the failing call wrote tiles before it failed: the history is not the one intended")
            continue
        if step == "interrupted":
            # the first run dies between the base layer and the end of the cascade (before index_rel.wtml is written)
            from toasty import builder as _b

            orig = _b.Builder.cascade

            def dying(self, **k):
                raise Interrupt()

            _b.Builder.cascade = dying
            try:
                toasty.tile_fits(paths, out_dir=out, parallel=spec["par"], override=False, **kw)
                probs.append(("interrupt-swallowed", "the injected interruption of the cascade did not stop tile_fits"))
            except Interrupt:
                pass
            finally:
                _b.Builder.cascade = orig
            calls += 1
            continue
        if step == "override_smaller":
            # the retry tiles a smaller (shallower) data set into the same directory with override=True
            small = os.path.join(ind, "small.fits")
            if spec["mode"] == "tan":
                fitsgen.write_piece(small, rng.normal(size=(100, 120)).astype(np.float32), (0, 0, 120, 100), (60, 50), crval=(10.0, 5.0), bottoms_up=True)
            else:
                fitsgen.write_piece(small, rng.normal(size=(20, 30)).astype(np.float32), (0, 0, 30, 20), (15, 10), scale=2.0, crval=(10.0, 5.0), bottoms_up=True)
            use = current = [small]
        od, b = toasty.tile_fits(use if len(use) > 1 or R.random() < 0.5 else use[0], out_dir=out, parallel=spec["par"], override=(step in ("override", "override_smaller", "override_other")), **kw2)
        calls += 1
        if out is None:
            out = od
        if os.path.abspath(od) != os.path.abspath(out):
            probs.append(("out-dir", "call %d (%s) returned out_dir %r, expected %r" % (calls, step, od, out)))
        if b is None:
            probs.append(("builder-vs-wtml:" + ("reuse" if step == "repeat" else step), "call %d (%s) returned no Builder" % (calls, step)))
            continue
        if not os.path.exists(os.path.join(out, "index_rel.wtml")):
            probs.append(("no-wtml-in-returned-dir", "call %d (%s): there is no index_rel.wtml in the directory tile_fits returned (%s)" % (calls, step, os.path.basename(out))))
            break
        p = []
        builder_vs_wtml(b, out, p, "call %d (%s)" % (calls, step))
        probs += [(k + ":" + ("reuse" if step == "repeat" else step), t) for k, t in p]
        if not os.path.exists(os.path.join(out, "0", "0", "0_0.fits")):
            probs.append(("root-tile-missing", "call %d (%s): 0/0/0_0.fits absent" % (calls, step)))
        # the recorded depth is the deepest populated layer actually on disk (nothing stale from an earlier run)
        iset, _pl = wtml_info(os.path.join(out, "index_rel.wtml"))
        levels_on_disk = [int(dn) for dn in os.listdir(out) if dn.isdigit() and any(f.endswith(".fits") for _r, _d, fs in os.walk(os.path.join(out, dn)) for f in fs)]
        if levels_on_disk and max(levels_on_disk) != int(iset.get("TileLevels")):
            probs.append(("tilelevels-vs-disk:" + step, "call %d (%s): TileLevels=%s but the deepest populated layer on disk is %d" % (calls, step, iset.get("TileLevels"), max(levels_on_disk))))
    deepest = max([int(dn) for dn in os.listdir(out) if dn.isdigit()] or [0]) if out and os.path.isdir(out) else 0
    r = dict(counters={"histories": 1, "tile_fits_calls": calls, "history_" + spec["mode"]: 1, "max_history_depth": deepest}, nontrivial=calls >= 2, sample=dict(spec=spec, deepest=deepest))
    if probs:
        keys = sorted({k for k, _ in probs})
        r.update(status="violation", key="+".join(keys)[:140], detail="; ".join(t for _, t in probs[:5]))
    return r


def run_case(spec, workdir):
    if spec["t"] == "template":
        return case_template(spec, workdir)
    if spec["t"] == "workflow":
        return run_workflow(spec, workdir)
    return case_history(spec, workdir)


def finish(agg, tier):
    c = agg["counters"]
    wf = ["study_png", "study_jpg", "study_fits", "study_fitswcs", "allsky", "multi_tan", "wwtl", "tile_fits_tan", "tile_fits_wcs", "tile_fits_toast", "pipeline"]
    wf.append("api_study")
    miss = [w for w in wf if c.get("wf_" + w, 0) < 1]
    if c.get("max_history_depth", 0) < 10:
        miss.append("a reused pyramid with two-digit level numbers")
    if miss or c.get("template_positions", 0) < 10000 or c.get("histories", 0) < 3 or c.get("tiles_matched", 0) < 50:
        return dict(inconclusive="not reached: %s %s" % (miss, {k: c.get(k) for k in ("template_positions", "histories", "tiles_matched")}))
    return {}
