"""C01: cascade walk - each live parent exactly once, only after all its live children; the walk returns."""
import collections
import os
import random

from vlib import evlog, gens, instr_mp, models
from vlib import ref_quadtree as rq

PROPERTY = "C01"
REPLAY_REPEATS = 10
LEVEL = "exploration"
JOBS = 12
CASE_TIMEOUT = 150
RULE = (
    "one case = one Pyramid.walk(callback, parallel=k) on a generated pyramid (generic / TOAST / position-set filter incl. "
    "accepted-but-childless and orphan tiles / real lat-lon box; optional sub-pyramid apex) under one delay profile, run in its "
    "own process group with instrumented multiprocessing (time-outs dilated x0.02). The monitoring callback logs cb_start/cb_end, "
    "asserts the marker files of its live non-leaf children and writes its own marker. Oracle: multiset of cb_start == reference "
    "live-parent set (vlib/ref_quadtree), log order child cb_end before parent cb_start, no stuck state, no exception, workers "
    "exited before return, serial == parallel. Non-trivial: >=2 live parents and >=1 live non-leaf child relation; distinct by spec."
    ' Also: sequences of walks in one forked process; pyramid objects that were counted / visited / walked BEFORE subpyramid(); filter '
    'objects of several callable kinds incl. falsy ones; a quarter of the parallel runs with statement-boundary delays; fresh interpret'
    'ers with the forkserver / spawn start method and a closure callback.'
    ' Round 8: long walks (depth 6-7, hundreds of tiles per worker); pyramid objects used at another depth before their depth attribute is set.'
    ' Round 9: walks in which the operating system refuses the first / second / third worker fork (a reported refusal is accepted; a tile processed twice never is).'
)
ASSUMPTIONS = [
    "event-log file order respects happens-before (O_APPEND single-write records)",
    "reference quadtree model is correct",
    "time dilation of queue time-outs (x0.02) does not change the protocol logic",
]
EXHAUSTIVE = {"thorough": "depth-2 family: every subset of accepted level-1 tiles x every child subset under one of them (256 filters) x k in {2,4}"}


def cases(tier, seed):
    R = random.Random("c01/%d" % seed)
    out = []
    n = 260 if tier == "quick" else 5000
    ks = [1, 2, 2, 3, 4, 4, 8] if tier == "quick" else [1, 2, 2, 3, 4, 4, 8, 8, 16]
    profs = instr_mp.PROFILES
    for i in range(n):
        s = gens.gen_pyramid(R, maxdepth=4 if tier == "quick" else 5, mindepth=0 if i % 15 == 0 else 2, redepth_p=0.12,
                             kinds=("generic", "toast", "filtered", "filtered", "filtered", "bbox"), sub_p=0.4)
        s["profile"] = profs[i % len(profs)]
        s["par"] = R.choice(ks)
        if s["profile"] == "burst":
            s["par"] = R.choice([16, 24] if tier == "quick" else [16, 24, 32])
        elif s["par"] == 1 and s["profile"] != "natural":
            s["par"] = 2
        s["seed"] = R.randrange(1 << 30)
        out.append(s)
    for i in range(8 if tier == "quick" else 120):
        s = gens.gen_pyramid(R, maxdepth=4, mindepth=2, kinds=("generic", "toast", "filtered"), sub_p=0.3)
        s.update(profile=R.choice(["natural", "jitter", "slow_workers", "heavy_tail"]), par=R.choice([2, 3, 4]), seed=R.randrange(1 << 30), fail_at="pick")
        out.append(s)
    # the operating system refuses the first / second / third worker: the walk reports it, or still does everything exactly once
    for i in range(8 if tier == "quick" else 80):
        s = gens.gen_pyramid(R, maxdepth=3, mindepth=2, kinds=("generic", "toast", "filtered"), sub_p=0.2)
        s.update(profile=R.choice(["natural", "jitter", "slow_workers"]), par=R.choice([2, 2, 3, 4]), seed=R.randrange(1 << 30), forkfail=i % 3)
        out.append(s)
    # long walks: many hundreds of tiles per worker (anything that wears out, recycles or rotates after N tiles)
    for d, k in (((6, 2),) if tier == "quick" else ((6, 2), (6, 2), (6, 3), (7, 8), (7, 4))):
        out.append(dict(kind="generic", depth=d, apex=None, accepted=None, coordsys="astronomical", profile=R.choice(["natural", "natural", "jitter"]) if tier != "quick" else "natural", par=k,
                        seed=R.randrange(1 << 30), _timeout=600))
    for m in ("forkserver", "spawn"):
        for kind in (("generic", "toast") if tier == "quick" else ("generic", "toast", "generic", "toast")):
            out.append(dict(t="startmethod", method=m, kind=kind, depth=R.choice([2, 3]), par=R.choice([2, 4]), seed=R.randrange(1 << 30), profile="natural", apex=None))
    # sequences of walks in ONE process: state left behind by one walk (readiness tables, queues, counters) must not leak
    # into the next one. Directed part: walk A has a tile T that the filter accepts although none of its children is
    # accepted (T stays pre-readied); walk B has T as an ordinary live parent at least two levels above the leaves.
    for i in range(24 if tier == "quick" else 400):
        d = R.choice([3, 4])
        n = R.randrange(1, d - 1)
        T = (n, R.randrange(1 << n), R.randrange(1 << n))
        other = [p for p in rq.all_positions(d, d) if not rq.is_under(p, T)]
        accA = gens.closure(R.sample(other, min(3, len(other))) + [T])
        wa = dict(kind="filtered", depth=d, apex=None, accepted=sorted(accA), coordsys="astronomical", family="childless-T")
        wb = R.choice([dict(kind="generic", depth=d, apex=None, accepted=None, coordsys="astronomical"),
                       dict(kind="toast", depth=d, apex=None, accepted=None, coordsys="astronomical"),
                       dict(kind="generic", depth=d, apex=list(rq.parent(T)) if n >= 2 else None, accepted=None, coordsys="astronomical")])
        walks = [wa, wb] if i % 3 else [gens.gen_pyramid(R, maxdepth=3, mindepth=2, sub_p=0.3), wa, wb]
        out.append(dict(t="seq", walks=walks, par=R.choice([2, 3, 4]), profile=R.choice(["straggler", "straggler", "jitter", "natural"]), seed=R.randrange(1 << 30),
                        kind="seq", depth=d, apex=None))
    # directed: apex equal to a leaf, depth 0 and 1, filter disjoint from the apex, accept-parent-but-no-children
    for par in (1, 2, 4):
        out.append(dict(kind="generic", depth=0, apex=None, accepted=None, par=par, profile="natural", seed=par, coordsys="astronomical"))
        out.append(dict(kind="toast", depth=1, apex=None, accepted=None, par=par, profile="late_start", seed=par, coordsys="planetary"))
        out.append(dict(kind="generic", depth=3, apex=[3, 5, 2], accepted=None, par=par, profile="natural", seed=par, coordsys="astronomical"))
        out.append(dict(kind="filtered", depth=3, apex=[1, 1, 1], accepted=sorted(gens.closure([(3, 0, 0)])), par=par, profile="jitter", seed=par, coordsys="astronomical", family="disjoint"))
        out.append(dict(kind="filtered", depth=3, apex=None, accepted=[[1, 0, 0], [2, 0, 0], [2, 1, 1], [3, 2, 2], [1, 1, 1]], par=par, profile="straggler", seed=par, coordsys="astronomical", family="childless"))
    if tier == "thorough":
        l1 = [(1, 0, 0), (1, 1, 0), (1, 0, 1), (1, 1, 1)]
        for m1 in range(1, 16):
            acc1 = [l1[i] for i in range(4) if m1 >> i & 1]
            for m2 in range(16):
                ch = rq.children(acc1[0])
                acc = set(acc1) | {ch[j] for j in range(4) if m2 >> j & 1}
                for par in (2, 4):
                    out.append(dict(kind="filtered", depth=2, apex=None, accepted=sorted(acc), par=par,
                                    profile=R.choice(["natural", "straggler", "slow_dispatcher", "late_start"]), seed=R.randrange(1 << 30),
                                    coordsys="astronomical", family="exh2"))
    return out


def run_walk(spec, workdir, par, tag, ops):
    log = os.path.join(workdir, "log-" + tag)
    mdir = os.path.join(workdir, "m-" + tag)
    os.makedirs(mdir, exist_ok=True)
    evlog.open_log(log)
    pyr = gens.build_pyramid(spec)

    def mpath(p):
        return os.path.join(mdir, "%d_%d_%d" % tuple(p))

    fail_at = tuple(spec["fail_at"]) if spec.get("fail_at") else None

    def cb(pos):
        p = (int(pos.n), int(pos.x), int(pos.y))
        evlog.ev("cb_start", pos=p)
        if p == fail_at:
            evlog.ev("cb_exc", pos=p)
            raise RuntimeError("injected failure at %s" % (p,))
        for c in rq.children(p):
            if c in ops and not os.path.exists(mpath(c)):
                evlog.ev("marker_missing", pos=p, child=c)
        instr_mp.cb_delay(p)
        with open(mpath(p), "w"):
            pass
        evlog.ev("cb_end", pos=p)

    def fn():
        if spec.get("forkfail") is not None and par > 1:
            # the operating system refuses to create more than `forkfail` worker processes (EAGAIN: ulimit -u, a cgroup limit)
            import errno

            real, n = os.fork, [0]

            def fork():
                n[0] += 1
                if n[0] > spec["forkfail"]:
                    evlog.ev("fork_refused", n=n[0])
                    raise BlockingIOError(errno.EAGAIN, "Resource temporarily unavailable (injected fork failure)")
                return real()

            os.fork = fork
        pyr.walk(cb, parallel=par)

    if par > 1:
        outcome, info = models.run_stage(fn, log, "walk", watchdog=90, hostile=dict(seed=spec["seed"], p=0.03, files=("pyramid.py", "par_util.py"), lo=0.001, hi=0.06, budget=1.0) if spec["seed"] % 4 == 0 else None)
    else:
        evlog.ev("stage_call")
        try:
            fn()
            evlog.ev("stage_ret")
            outcome, info = "returned", {}
        except Exception as e:
            evlog.ev("stage_exc", e=repr(e)[:300])
            outcome, info = "raised", dict(e=repr(e)[:300])
    recs = evlog.read(log)
    evlog.close_log()
    return outcome, info, recs, log


def check_history(recs, ops, outcome, info):
    """offline oracle over the event log; returns list of (key, text)"""
    v = []
    starts = collections.Counter(tuple(r["pos"]) for r in recs if r["k"] == "cb_start")
    if outcome == "stuck":
        v.append(("walk-stuck", "stuck state: %s" % info))
    elif outcome == "raised" and any(r["k"] == "fork_refused" for r in recs):
        # the refused fork was reported to the caller: nothing is promised about completeness, but no tile may have been
        # processed twice (and the ordering clauses below still apply to what did run)
        dup = sorted(k for k, n in starts.items() if n != 1)
        if dup:
            v.append(("callback-repeated", "callback ran more than once for %s (a worker could not be started)" % dup[:6]))
    elif outcome == "raised":
        exc = [r.get("e") for r in recs if r["k"] == "stage_exc"]
        v.append(("walk-raised", "walk raised %s" % exc))
    elif outcome == "died":
        v.append(("walk-died", "walk process died: %s" % info))
    if outcome == "returned":
        extra = sorted(set(starts) - ops)
        missing = sorted(ops - set(starts))
        dup = sorted(k for k, n in starts.items() if n != 1)
        if extra:
            v.append(("callback-for-non-live-tile", "callback ran for %s which are not live parents" % extra[:6]))
        if missing:
            v.append(("live-parent-not-visited", "no callback for live parents %s" % missing[:6]))
        if dup:
            v.append(("callback-repeated", "callback ran more than once for %s" % dup[:6]))
    else:
        extra = sorted(set(starts) - ops)
        if extra:
            v.append(("callback-for-non-live-tile", "callback ran for %s which are not live parents" % extra[:6]))
    ended = set()
    ret_seen = False
    live = set()
    for r in recs:
        k = r["k"]
        if k == "cb_end":
            ended.add(tuple(r["pos"]))
        elif k == "cb_start":
            p = tuple(r["pos"])
            for c in rq.children(p):
                if c in ops and c not in ended:
                    v.append(("parent-before-child", "cb_start%s logged before cb_end%s" % (p, c)))
            if ret_seen:
                v.append(("callback-after-return", "cb_start%s after the walk returned" % (p,)))
        elif k == "marker_missing":
            v.append(("parent-before-child", "callback %s started while marker of live child %s absent" % (r["pos"], r["child"])))
        elif k == "proc_run":
            live.add(r["pid"])
        elif k == "proc_exit":
            live.discard(r["pid"])
        elif k == "stage_ret":
            ret_seen = True
            if live:
                v.append(("worker-alive-at-return", "%d workers had not exited when the walk returned" % len(live)))
    return v


def run_seq(spec, workdir):
    """several walks one after the other in one (forked) process; the oracle is applied to each walk's segment of the log"""
    par = spec["par"]
    instr_mp.install(spec["profile"], spec["seed"])
    log = os.path.join(workdir, "log-seq")
    evlog.open_log(log)
    infos = []
    for w in spec["walks"]:
        apex = tuple(w["apex"]) if w.get("apex") else (0, 0, 0)
        acc = gens.resolve_accepted(w)
        infos.append((rq.leaves(w["depth"], acc, apex), rq.live_parents(w["depth"], acc, apex)))

    def fn():
        for i, w in enumerate(spec["walks"]):
            ops = infos[i][1]
            mdir = os.path.join(workdir, "m-seq-%d" % i)
            os.makedirs(mdir, exist_ok=True)
            pyr = gens.build_pyramid(w)

            def cb(pos, i=i, ops=ops, mdir=mdir):
                p = (int(pos.n), int(pos.x), int(pos.y))
                evlog.ev("cb_start", pos=p, w=i)
                for c in rq.children(p):
                    if c in ops and not os.path.exists(os.path.join(mdir, "%d_%d_%d" % c)):
                        evlog.ev("marker_missing", pos=p, child=c, w=i)
                instr_mp.cb_delay(p)
                open(os.path.join(mdir, "%d_%d_%d" % p), "w").close()
                evlog.ev("cb_end", pos=p, w=i)

            evlog.ev("walk_begin", w=i)
            pyr.walk(cb, parallel=par)
            evlog.ev("walk_end", w=i)

    outcome, info = models.run_stage(fn, log, "walk", watchdog=120, hostile=dict(seed=spec["seed"], p=0.03, files=("pyramid.py", "par_util.py"), lo=0.001, hi=0.06, budget=1.0) if spec["seed"] % 4 == 0 else None)
    recs = evlog.read(log)
    evlog.close_log()
    if outcome == "watchdog":
        return dict(status="inconclusive", detail="watchdog")
    v = []
    done = {r["w"] for r in recs if r["k"] == "walk_end"}
    for i, w in enumerate(spec["walks"]):
        seg = []
        on = False
        for r in recs:
            if r["k"] == "walk_begin" and r["w"] == i:
                on = True
            elif r["k"] == "walk_end" and r["w"] == i:
                seg.append(dict(r, k="stage_ret"))
                on = False
            elif on and (r.get("w", i) == i):
                seg.append(r)
        if i in done:
            vi = check_history(seg, infos[i][1], "returned", {})
        elif i == len(done):
            vi = check_history(seg, infos[i][1], outcome, info)  # the walk during which the stage got stuck / raised
        else:
            vi = []
        v += [("walk#%d-after-%d-earlier:%s" % (i, i, k) if i else k, "walk #%d of the sequence: %s" % (i, t)) for k, t in vi]
    if outcome != "returned" and not v:
        v.append(("walk-" + outcome, "sequence outcome %s %s" % (outcome, info)))
    counters = collections.Counter(sequences=1, sequence_walks=len(spec["walks"]))
    counters["runs_profile_" + spec["profile"]] += 1
    res = dict(counters=dict(counters), nontrivial=True, sets=dict(interleaving_signatures=[models.signature(recs)]),
               sample=dict(walks=[{k: v_ for k, v_ in w.items() if k != "accepted"} for w in spec["walks"]], par=par, profile=spec["profile"], outcome=outcome))
    if v:
        keys = sorted({k.split(":")[-1] if k.startswith("walk#") else k for k, _ in v})
        first = [k for k, _ in v if k.startswith("walk#")]
        res.update(status="violation", key=("state-leak-between-walks:" if first else "") + "+".join(keys)[:100], detail="; ".join(t for _, t in v[:5]), witness_files=dict(eventlog=log))
    return res


def run_startmethod(spec, workdir):
    """a fresh interpreter whose multiprocessing start method is not 'fork' (the default on macOS / Windows, and on Linux
    from Python 3.14): a walk with an ordinary closure as callback and parallel=2 must still run every live parent once,
    children first, and return"""
    import subprocess
    import sys

    from vlib.core import repo_root

    out = os.path.join(workdir, "calls")
    d = spec["depth"]
    script = (
        "import multiprocessing as mp, os, sys\n"
        "mp.set_start_method(%r, force=True)\n"
        "sys.path.insert(0, %r)\n"
        "from toasty.pyramid import Pyramid\n"
        "def main():\n"
        "    fd = os.open(%r, os.O_WRONLY | os.O_CREAT | os.O_APPEND)\n"
        "    def cb(pos):\n"
        "        os.write(fd, ('%%d %%d %%d\\n' %% (pos.n, pos.x, pos.y)).encode())\n"
        "    Pyramid.new_%s(%d).walk(cb, parallel=%d)\n"
        "    print('RETURNED')\n"
        "if __name__ == '__main__':\n"
        "    main()\n" % (spec["method"], repo_root(), out, spec["kind"], d, spec["par"]))
    sp = os.path.join(workdir, "walk_script.py")
    with open(sp, "w") as f:
        f.write(script)
    try:
        r = subprocess.run([sys.executable, sp], capture_output=True, text=True, timeout=120, start_new_session=True)
    except subprocess.TimeoutExpired:
        return dict(status="inconclusive", detail="walk under start method %s still running after 120 s (wall clock only)" % spec["method"])
    calls = [tuple(int(v) for v in l.split()) for l in open(out).read().splitlines()] if os.path.exists(out) else []
    ops = rq.live_parents(d, None, (0, 0, 0))
    v = []
    if "RETURNED" not in r.stdout:
        v.append(("walk-did-not-return", "interpreter ended with %s: %s" % (r.returncode, (r.stderr or "").strip().splitlines()[-1:] )))
    c = collections.Counter(calls)
    if set(c) != set(ops) or any(n != 1 for n in c.values()):
        v.append(("callbacks-differ", "%d callbacks for %d live parents (max multiplicity %d)" % (len(calls), len(ops), max(c.values()) if c else 0)))
    seen = set()
    for p in calls:
        if any(ch in ops and ch not in seen for ch in rq.children(p)):
            v.append(("parent-before-child", "callback for %s before one of its live children" % (p,)))
            break
        seen.add(p)
    res = dict(counters={"runs_startmethod_" + spec["method"]: 1}, nontrivial=True, sample=dict(spec=spec, callbacks=len(calls)))
    if v:
        res.update(status="violation", key="startmethod-%s:" % spec["method"] + "+".join(sorted({k for k, _ in v})), detail="; ".join(t for _, t in v[:4]))
    return res


def run_case(spec, workdir):
    if spec.get("t") == "seq":
        return run_seq(spec, workdir)
    if spec.get("t") == "startmethod":
        return run_startmethod(spec, workdir)
    depth = spec["depth"]
    apex = tuple(spec["apex"]) if spec.get("apex") else (0, 0, 0)
    acc = gens.resolve_accepted(spec)
    leaves = rq.leaves(depth, acc, apex)
    ops = rq.live_parents(depth, acc, apex)
    par = spec["par"]
    instr_mp.install(spec["profile"] if par > 1 else "natural", spec["seed"])
    if spec.get("fail_at") == "pick":
        cand = sorted(p for p in ops if p[0] > apex[0])
        if not cand:
            return dict(status="held", nontrivial=False, counters=dict(fault_walks_skipped=1))
        spec = dict(spec, fail_at=list(cand[spec["seed"] % len(cand)]))
    outcome, info, recs, log = run_walk(spec, workdir, par, "main", ops)
    if spec.get("fail_at"):
        # the callback of one live parent fails: whatever the walk then does, "a tile's callback starts only after the callbacks
        # of all its live non-leaf children have COMPLETED" - the failed tile never completed, so none of its ancestors may start
        f = tuple(spec["fail_at"])
        anc = set()
        q = f
        while q[0] > apex[0]:
            q = rq.parent(q)
            anc.add(q)
        started = sorted({tuple(r["pos"]) for r in recs if r["k"] == "cb_start" and tuple(r["pos"]) in anc})
        res = dict(counters=dict(fault_walks=1), nontrivial=bool(anc), sample=dict(spec={k: v for k, v in spec.items() if k != "accepted"}, outcome=outcome))
        if outcome == "watchdog":
            return dict(status="inconclusive", detail="watchdog")
        if started:
            res.update(status="violation", key="ancestor-started-although-its-child-failed", detail="callback of %s raised; callbacks nevertheless started for its ancestors %s" % (f, started[:4]))
        return res
    counters = collections.Counter()
    counters["runs_profile_" + spec["profile"]] += 1
    counters["runs_k%d" % par] += 1
    if outcome == "watchdog":
        return dict(status="inconclusive", detail="wall-clock watchdog fired (no stuck state recognised)")
    if par > 1 and not any(r["k"] in ("put_call", "get_call", "proc_run") for r in recs) and ops:
        return dict(status="inconclusive", detail="instrumentation bypassed: no queue/process events logged")
    v = check_history(recs, ops, outcome, info)
    # serial control: identical multiset
    if par > 1:
        instr_mp.install("natural", spec["seed"])
        o2, i2, recs2, _ = run_walk(spec, workdir, 1, "serial", ops)
        s1 = collections.Counter(tuple(r["pos"]) for r in recs if r["k"] == "cb_start")
        s2 = collections.Counter(tuple(r["pos"]) for r in recs2 if r["k"] == "cb_start")
        v2 = check_history(recs2, ops, o2, i2)
        v += [("serial:" + k, t) for k, t in v2]
        if outcome == "returned" and o2 == "returned" and s1 != s2:
            v.append(("serial-parallel-differ", "serial visited %d, parallel %d" % (sum(s2.values()), sum(s1.values()))))
    lc = models.log_counters(recs)
    for k in ("events", "worker_timeouts", "timeouts_while_pending", "max_concurrent_callbacks", "statement_delays"):
        counters[k if k.startswith("max_") else "log_" + k] = lc.get(k, 0)
    dead_hist = collections.Counter()
    rel = 0
    for p in ops:
        ch = rq.children(p)
        dead = sum(1 for c in ch if c not in ops and c not in leaves)
        dead_hist[dead] += 1
        rel += sum(1 for c in ch if c in ops)
    for d, n in dead_hist.items():
        counters["parents_with_%d_dead_children" % d] += n
    counters["callbacks_checked"] += sum(1 for r in recs if r["k"] == "cb_start")
    nontrivial = len(ops) >= 2 and rel >= 1
    res = dict(
        counters=dict(counters), nontrivial=nontrivial,
        sets=dict(interleaving_signatures=[models.signature(recs)] if par > 1 else [],
                  shape=[[spec["kind"], depth, apex[0], spec.get("family"), par, spec["profile"]]]),
        sample=dict(spec={k: v_ for k, v_ in spec.items() if k != "accepted"}, live_parents=len(ops), leaves=len(leaves), outcome=outcome,
                    log_excerpt=[{k: r.get(k) for k in ("k", "pid", "role", "q", "pos", "item") if r.get(k) is not None} for r in recs[:14]]),
    )
    if v:
        keys = sorted({k for k, _ in v})
        res.update(status="violation", key=keys[0] if len(keys) == 1 else "+".join(keys)[:120], detail="; ".join(t for _, t in v[:6]), witness_files=dict(eventlog=log))
    else:
        res["status"] = "held"
    return res


def finish(agg, tier):
    c = agg["counters"]
    miss = []
    for p in instr_mp.PROFILES:
        if c.get("runs_profile_" + p, 0) < 1:
            miss.append("profile " + p)
    for d in (1, 2, 3):
        if c.get("parents_with_%d_dead_children" % d, 0) < 1:
            miss.append("parents with %d dead children" % d)
    if c.get("log_timeouts_while_pending", 0) < 1:
        miss.append("worker time-outs while work pending")
    if agg["sets"].get("interleaving_signatures", 0) < 50:
        miss.append("50 distinct interleaving signatures")
    if miss:
        return dict(inconclusive="deciding monitors not reached: %s" % miss)
    return dict(coverage=dict(interleaving_signatures=agg["sets"].get("interleaving_signatures", 0)))
