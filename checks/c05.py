"""C05: a tile's 256x256 pixel grid is the centres of the tiles eight levels deeper."""
import os
import random

import numpy as np

from vlib import coherence
from vlib import ref_quadtree as rq
from vlib import ref_toast as rt

PROPERTY = "C05"
LEVEL = "exploration"
JOBS = 16
CASE_TIMEOUT = 600
TOL = 1e-12
RULE = (
    "one case = a block of tiles (all tiles to a depth bound, plus random deep tiles, both coordinate systems, obtained through "
    "generate_tiles / create_single_tile / point lookup). For each tile toast_tile_get_coords is compared (a) on all 65536 pixels, as unit "
    "vectors, with the independent vectorised reference refinement of the tile's reference corners; (b) on sampled pixels with the centre of "
    "toasty's own create_single_tile(n+8, 256x+j, 256y+i) (compiled vs Python subdivision); (c) every pixel latitude within the corner "
    "latitude range and every pixel inside the tile by signed great-circle distance; (d) transposition guard (pixel (0,255) nearest UR, "
    "(255,0) nearest LL). Thorough also runs the workload against an ASan+UBSan rebuild of the extension (diagnostics). "
    "Non-trivial: every tile (65536 pixels compared); distinct by tile position and coordinate system."
    " Also: tiles taken from two enumerations advanced in lockstep; grids handed to samplers through the library's own box filter; the "
    'position reported for pixels next to the tile borders is looked up again (same tile, within 2 px).'
    " Round 8: grids requested again after an earlier answer went through the library's own whole-map and chunk samplers; sampling entry points preceded by whole-map and per-chunk passes over the same layer in the same process."
)
ASSUMPTIONS = ["reference TOAST subdivision follows the documentation", "compiled extension as built; .pyx coherent with .c"]
EXHAUSTIVE = {"quick": "all 84 tiles to depth 3 in both coordinate systems, all pixels", "thorough": "all 1364 tiles to depth 5 in both coordinate systems, all pixels"}


def precheck():
    return coherence.check()


def cases(tier, seed):
    R = random.Random("c05/%d" % seed)
    out = []
    D = 3 if tier == "quick" else 5
    for cs in ("astronomical", "planetary"):
        allp = rq.all_positions(D, 1)
        for i in range(0, len(allp), 12):
            out.append(dict(cs=cs, positions=allp[i:i + 12], nsub=40 if tier == "quick" else 200, seed=R.randrange(1 << 30), route="enum" if i % 24 == 0 else ("lockstep" if i % 24 == 12 else "single")))
        nd = 40 if tier == "quick" else 500
        deep = []
        for _ in range(nd):
            d = R.randrange(4, 15)
            deep.append((d, R.choice([0, (1 << d) - 1, R.randrange(1 << d)]), R.randrange(1 << d)))
        for i in range(0, nd, 10):
            out.append(dict(cs=cs, positions=deep[i:i + 10], nsub=40 if tier == "quick" else 200, seed=R.randrange(1 << 30), route=R.choice(["single", "point"])))
    # the grids actually handed to a sampler by the real sampling entry points, incl. the single level-0 tile (which has no
    # Tile object: its pixel grid is only observable through sampling)
    for cs in ("astronomical", "planetary"):
        for entry in ("sample_layer", "sample_layer_filtered", "toast_base"):
            for depth in (0, 1, 2) if tier == "quick" else (0, 1, 2, 2, 3):
                out.append(dict(t="sampler_grid", cs=cs, entry=entry, depth=depth, seed=R.randrange(1 << 30)))
    if tier == "thorough":
        out.append(dict(t="sanitizer", _timeout=900))
    return out


def check_tile(t, pl, cs, R, nsub, probs):
    from toasty import toast
    from toasty.pyramid import Pos

    p = tuple(int(v) for v in t.pos)
    if R.random() < 0.5:
        # the grid was asked for before, and that answer was put through the library's own samplers (whole-map and chunk
        # samplers): the answer to the next request is judged
        from toasty import samplers as _smp

        from checks.c07 import FakeChunked

        lon0, lat0 = toast.toast_tile_get_coords(t)
        m = np.arange(8 * 16, dtype=np.float32).reshape(8, 16)
        for f in (_smp.plate_carree_sampler(m), _smp.plate_carree_planet_sampler(m), _smp.plate_carree_zeroright_sampler(m),
                  _smp.ChunkedPlateCarreeSampler(FakeChunked(m, 16, 8), planetary=True).sampler(0)):
            f(lon0, lat0)
    lon, lat = toast.toast_tile_get_coords(t)
    if lon.shape != (256, 256) or lat.shape != (256, 256):
        probs.append("%s: grid shape %s" % (p, lon.shape))
        return
    G = rt.xyz(lon, lat)
    rc, rinc = rt.tile_corners(p, pl)
    ref = rt.pixel_centres(rc, rinc)
    d = np.abs(G - ref).max(axis=-1)
    if d.max() > TOL:
        i, j = np.unravel_index(np.argmax(d), d.shape)
        # does a transposed / mirrored grid match? (diagnostic only)
        alt = {"transposed": ref.transpose(1, 0, 2), "rows reversed": ref[::-1], "cols reversed": ref[:, ::-1]}
        hint = [k for k, a in alt.items() if np.abs(G - a).max() <= TOL]
        probs.append("%s: pixel (%d,%d) differs from the reference centre by %.3g (%d pixels off)%s" % (p, i, j, d.max(), int((d > TOL).sum()), " - matches the reference %s" % hint[0] if hint else ""))
    # compiled vs Python subdivision
    for _ in range(nsub):
        i, j = R.randrange(256), R.randrange(256)
        if R.random() < 0.2:
            i, j = R.choice([0, 127, 128, 255]), R.choice([0, 127, 128, 255])
        sub = toast.create_single_tile(Pos(p[0] + 8, 256 * p[1] + j, 256 * p[2] + i), coordsys=cs)
        c = rt.corners_to_xyz(sub.corners)
        cen = rt.unit(c[3] + c[1]) if sub.increasing else rt.unit(c[0] + c[2])
        dd = np.abs(G[i, j] - cen).max()
        if dd > TOL:
            probs.append("%s: pixel (row %d, col %d) is %.3g away from the centre of tile (%d,%d,%d) built by the Python subdivision" % (p, i, j, dd, p[0] + 8, 256 * p[1] + j, 256 * p[2] + i))
            break
    # inside the tile, within the corner latitude range
    tc = rt.corners_to_xyz(t.corners)
    clat = np.array([float(c[1]) for c in t.corners])
    if lat.min() < clat.min() - 1e-12 or lat.max() > clat.max() + 1e-12:
        probs.append("%s: pixel latitudes [%.15g, %.15g] leave the corner latitude range [%.15g, %.15g]" % (p, lat.min(), lat.max(), clat.min(), clat.max()))
    sd = rt.signed_edge_distances(tc, G).min(axis=0)
    if sd.min() < -1e-12:
        i, j = np.unravel_index(np.argmin(sd), sd.shape)
        probs.append("%s: pixel (%d,%d) lies %.3g rad outside its tile" % (p, i, j, -sd.min()))
    # one pixelisation in both directions: asking for the pixel of the sky position reported for pixel (i, j) gives this tile and
    # (j, i) again (to the 2 pixels the inverse function promises; away from the poles), including pixels next to the borders
    if p[0] <= 12 and nsub >= 3:
        for _ in range(4):
            i, j = R.choice([0, 1, 2, 3, 128, 252, 254, 255, R.randrange(256)]), R.choice([0, 1, 3, 5, 128, 250, 253, 255, R.randrange(256)])
            if abs(lat[i, j]) > 1.5533:
                continue
            t2, x, y = toast.toast_pixel_for_point(p[0], float(lat[i, j]), float(lon[i, j]), coordsys=cs)
            if tuple(int(v) for v in t2.pos) != p or not (abs(x - j) <= 2 and abs(y - i) <= 2):
                probs.append("%s: the position reported for pixel (row %d, col %d) is looked up as tile %s pixel (x=%.2f, y=%.2f)" % (p, i, j, tuple(t2.pos), x, y))
                break
    # transposition guard
    for (i, j, k, name) in ((0, 255, 1, "UR"), (255, 0, 3, "LL"), (0, 0, 0, "UL"), (255, 255, 2, "LR")):
        dist = np.linalg.norm(tc - G[i, j], axis=1)
        if np.argmin(dist) != k and dist[k] > dist.min() + 1e-12:
            probs.append("%s: pixel (%d,%d) is not nearest to the %s corner" % (p, i, j, name))


def case_sampler_grid(spec, workdir):
    from toasty import toast
    from toasty.builder import Builder
    from toasty.pyramid import PyramidIO
    from toasty.toast import ToastCoordinateSystem as CS

    pl = spec["cs"] == "planetary"
    cs = CS.PLANETARY if pl else CS.ASTRONOMICAL
    depth = spec["depth"]
    grids = []

    def recorder(lon, lat):
        grids.append((np.array(lon), np.array(lat)))
        return np.zeros(lon.shape, np.float32)

    pio = PyramidIO(os.path.join(workdir, "p"), default_format="npy")
    # the tile filter: a Python function, or the LIBRARY's own lat/lon box filter with a box that covers the whole sky
    # (what WcsSampler.filter() and ChunkedPlateCarreeSampler.filter() hand out)
    accept_all = lambda t: True
    if spec["seed"] % 2 and depth >= 1:
        from toasty.samplers import _latlon_tile_filter

        accept_all = _latlon_tile_filter(-0.2, 6.5, -1.5707963267948966, 1.5707963267948966)
    if spec["seed"] % 3 != 0:
        # an EARLIER sampling pass over the same layer in this process, with the library's own samplers (whole-map and per
        # chunk, as a chunked planetary mosaic is toasted): whatever those passes did with the grids they were handed, the
        # next pass must again receive each tile's own pixel centres
        from toasty import samplers as _smp

        from checks.c07 import FakeChunked

        m = np.arange(16 * 32, dtype=np.float32).reshape(16, 32)
        early = PyramidIO(os.path.join(workdir, "earlier"), default_format="npy")
        toast.sample_layer(early, _smp.plate_carree_planet_sampler(m) if pl else _smp.plate_carree_sampler(m), depth, coordsys=cs, parallel=1)
        ch = _smp.ChunkedPlateCarreeSampler(FakeChunked(m, 12, 16), planetary=True)
        for ic in range(3):
            toast.sample_layer_filtered(early, ch.filter(ic), ch.sampler(ic), depth, coordsys=cs, parallel=1)
    if spec["entry"] == "sample_layer":
        toast.sample_layer(pio, recorder, depth, coordsys=cs, parallel=1)
    elif spec["entry"] == "sample_layer_filtered":
        toast.sample_layer_filtered(pio, accept_all, recorder, depth, coordsys=cs, parallel=1)
    else:
        Builder(pio).toast_base(recorder, depth, is_planet=pl, parallel=1, tile_filter=accept_all)
    probs = []
    if len(grids) != 4 ** depth:
        probs.append("%s depth %d: sampler called %d times, expected %d" % (spec["entry"], depth, len(grids), 4 ** depth))
    # every handed grid must be the centres, eight levels deeper, of exactly one tile of this layer
    V, inc = rt.vertex_grid(depth + 8, pl)
    a, b, c, d = V[:-1, :-1], V[:-1, 1:], V[1:, :-1], V[1:, 1:]
    cen = np.where(inc[..., None], rt.unit(c + b), rt.unit(a + d))
    seen = set()
    for (lon, lat) in grids:
        G = rt.xyz(lon, lat)
        # which tile? locate by the first pixel
        dist = np.abs(cen[::256, ::256] - G[0, 0]).max(axis=-1)
        y, x = np.unravel_index(np.argmin(dist), dist.shape)
        ref = cen[256 * y:256 * y + 256, 256 * x:256 * x + 256]
        dd = np.abs(G - ref).max()
        if dd > TOL:
            probs.append("%s %s depth %d: the grid handed to the sampler for tile (%d,%d,%d) differs from the centres of the tiles eight levels deeper by %.3g" % (
                spec["entry"], spec["cs"], depth, depth, x, y, dd))
        seen.add((x, y))
    if len(seen) != len(grids):
        probs.append("%s: two sampler calls were handed the same tile's grid" % spec["entry"])
    r = dict(counters=dict(sampler_grids_checked=len(grids), pixels_compared=65536 * len(grids), **{"sampler_grid_depth_%d" % depth: 1}), nontrivial=True,
             sample=dict(spec=spec, grids=len(grids)))
    if probs:
        r.update(status="violation", key="sampler-grid:" + spec["cs"] + (":depth0" if depth == 0 else ""), detail="; ".join(probs[:4]))
    return r


def run_case(spec, workdir):
    if spec.get("t") == "sanitizer":
        return sanitizer_lane(workdir)
    if spec.get("t") == "sampler_grid":
        return case_sampler_grid(spec, workdir)
    from toasty import toast
    from toasty.pyramid import Pos
    from toasty.toast import ToastCoordinateSystem as CS

    pl = spec["cs"] == "planetary"
    cs = CS.PLANETARY if pl else CS.ASTRONOMICAL
    R = random.Random(spec["seed"])
    probs = []
    pos_list = [tuple(p) for p in spec["positions"]]
    tiles = []
    if spec["route"] == "enum":
        want = set(pos_list)
        maxd = max(p[0] for p in pos_list)
        tiles = [t for t in toast.generate_tiles(maxd, bottom_only=False, coordsys=cs) if tuple(t.pos) in want]
    elif spec["route"] == "lockstep":
        # tiles handed out by two enumerations (one per coordinate system) advanced in lockstep, with a third one started
        # and dropped in the loop body
        want = set(pos_list)
        maxd = max(p[0] for p in pos_list)
        ocs_ = CS.ASTRONOMICAL if pl else CS.PLANETARY
        limit = 2 * len(rq.all_positions(maxd, 1)) + 10
        for i, (ta, to) in enumerate(zip(toast.generate_tiles(maxd, bottom_only=False, coordsys=cs), toast.generate_tiles(maxd, bottom_only=False, coordsys=ocs_))):
            if i > limit:
                probs.append("enumerations advanced in lockstep yield more than %d tiles at depth %d (%d exist)" % (limit, maxd, len(rq.all_positions(maxd, 1))))
                break
            if i % 9 == 4:
                g = toast.generate_tiles(maxd, bottom_only=True, coordsys=ocs_)
                next(g)
                del g
            if tuple(ta.pos) in want:
                tiles.append(ta)
            if tuple(to.pos) in want:
                p2 = []
                check_tile(to, not pl, ocs_, R, 3, p2)
                probs += ["[other coordinate system, enumerated in lockstep] " + x for x in p2]
        if {tuple(t.pos) for t in tiles} != want:
            probs.append("the enumeration advanced in lockstep with another one yielded %d of the %d wanted positions" % (len({tuple(t.pos) for t in tiles}), len(want)))
    elif spec["route"] == "point":
        for p in pos_list:
            rc, rinc = rt.tile_corners(p, pl)
            lo, la = rt.lonlat(rt.tile_centre(rc, rinc))
            tiles.append(toast.toast_tile_for_point(p[0], float(la), float(lo) % (2 * np.pi), coordsys=cs))
    else:
        tiles = [toast.create_single_tile(Pos(*p), coordsys=cs) for p in pos_list]
    # every tile is also evaluated in the OTHER coordinate system right afterwards, in this same process: a grid
    # remembered per position (and not per coordinate system) would be served stale
    ocs = CS.ASTRONOMICAL if pl else CS.PLANETARY
    for t in tiles:
        check_tile(t, pl, cs, R, spec["nsub"], probs)
        if t.pos.n >= 1:
            t2 = toast.create_single_tile(t.pos, coordsys=ocs)
            p2 = []
            check_tile(t2, not pl, ocs, R, max(5, spec["nsub"] // 8), p2)
            probs += ["[same position, other coordinate system, same process] " + x for x in p2]
            check_tile(t, pl, cs, R, 3, probs)
        if len(probs) > 8:
            break
    both = {bool(t.increasing) for t in tiles}
    r = dict(counters=dict(tiles_checked=len(tiles), pixels_compared=65536 * len(tiles), python_subdivision_comparisons=spec["nsub"] * len(tiles),
                           tiles_increasing=sum(1 for t in tiles if t.increasing), tiles_decreasing=sum(1 for t in tiles if not t.increasing)),
             nontrivial=True, sets=dict(tiles=[[spec["cs"], tuple(t.pos)] for t in tiles]),
             sample=dict(cs=spec["cs"], route=spec["route"], positions=pos_list[:4]))
    if probs:
        r.update(status="violation", key="pixel-grid:" + spec["cs"], detail="; ".join(probs[:6]))
    return r


def sanitizer_lane(workdir):
    """rebuild _libtoasty.c with ASan+UBSan and run a subdivision workload against it; reports are diagnostics"""
    import subprocess
    import sysconfig

    from vlib.core import repo_root

    src = os.path.join(repo_root(), "toasty", "_libtoasty.c")
    pkg = os.path.join(workdir, "san", "toasty")
    os.makedirs(pkg)
    import shutil

    for f in os.listdir(os.path.join(repo_root(), "toasty")):
        if f.endswith(".py"):
            shutil.copy(os.path.join(repo_root(), "toasty", f), pkg)
    inc = sysconfig.get_paths()["include"]
    npinc = np.get_include()
    so = os.path.join(pkg, "_libtoasty" + sysconfig.get_config_var("EXT_SUFFIX"))
    cmd = ["clang-14", "-shared", "-fPIC", "-O1", "-g", "-fsanitize=address,undefined", "-fno-omit-frame-pointer", "-I", inc, "-I", npinc, src, "-o", so]
    b = subprocess.run(cmd, capture_output=True, text=True)
    if b.returncode != 0:
        return dict(status="held", nontrivial=False, counters=dict(sanitizer_build_failed=1), sample=dict(sanitizer="build failed: " + b.stderr[-300:]))
    rtlib = subprocess.run(["clang-14", "-print-file-name=libclang_rt.asan-x86_64.so"], capture_output=True, text=True).stdout.strip()
    prog = (
        "import sys; sys.path.insert(0, %r)\n"
        "import numpy as np\n"
        "from toasty import toast, _libtoasty\n"
        "from toasty.samplers import _latlon_tile_filter\n"
        "assert %r in _libtoasty.__file__\n"
        "n=0\n"
        "for cs in toast.ToastCoordinateSystem:\n"
        "    f=_latlon_tile_filter(0.1,0.9,-0.3,0.4)\n"
        "    for t in toast.generate_tiles(4, bottom_only=False, coordsys=cs):\n"
        "        lo,la=toast.toast_tile_get_coords(t); f(t); n+=1\n"
        "print('tiles',n)\n"
    ) % (os.path.join(workdir, "san"), os.path.join(workdir, "san"))
    logp = os.path.join(workdir, "san.log")
    env = dict(os.environ, LD_PRELOAD=rtlib, ASAN_OPTIONS="detect_leaks=0:halt_on_error=0:log_path=%s" % logp, UBSAN_OPTIONS="print_stacktrace=1:halt_on_error=0:log_path=%s" % logp)
    r = subprocess.run(["/venv/bin/python", "-c", prog], capture_output=True, text=True, env=env, timeout=800)
    reports = 0
    for f in os.listdir(workdir):
        if f.startswith("san.log"):
            txt = open(os.path.join(workdir, f), errors="replace").read()
            reports += txt.count("ERROR: AddressSanitizer") + txt.count("runtime error:")
    ok = r.returncode == 0 and "tiles" in r.stdout
    return dict(status="held", nontrivial=False, counters=dict(sanitizer_reports=reports, sanitizer_runs=int(ok)),
                sample=dict(sanitizer=dict(ran=ok, reports=reports, stdout=r.stdout[-100:], stderr=r.stderr[-300:])))


def finish(agg, tier):
    c = agg["counters"]
    if c.get("tiles_checked", 0) < 100 or c.get("tiles_increasing", 0) < 10 or c.get("tiles_decreasing", 0) < 10:
        return dict(inconclusive="too few tiles / orientations reached: %s" % c)
    return dict(coverage=dict(sanitizer_reports=c.get("sanitizer_reports"), sanitizer_runs=c.get("sanitizer_runs")))
