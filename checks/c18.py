"""C18: publishing is crash-safe - index.wtml reaches the store only after all else."""
import collections
import io
import itertools
import os
import random
import shutil
from unittest import mock

PROPERTY = "C18"
LEVEL = "fault_enumeration"
OPTIMIZED_SAMPLE = (3, 20)  # cases repeated under python -O (quick, thorough)
JOBS = 16
CASE_TIMEOUT = 600
RULE = (
    "one driver case = one approved/ tree (1-3 images, 1-8 files each, with/without index.wtml, names sorting before and after it) x a "
    "block of directory orders (os.listdir wrapped: every permutation for <= 5 files, sampled beyond) x EVERY fault point (before, in the "
    "middle of - partial bytes in the store -, and after each put_item; and at the os.rename that moves the image to published/), "
    "injected as a BaseException or as a real crash (publish() runs in a forked child that os._exit()s at the fault point). After each: "
    "store has <id>/index.wtml => all other files of <id> present with identical bytes; index.wtml last in the put_item history of its "
    "image; <id> in published/ only if nothing failed for it and the store is complete, else intact in approved/; check_exists(id, "
    "'index.wtml') (refresh's skip test) only for complete images; a second fault-free publish() completes everything. "
    "evaluations = fault cases executed; distinct = distinct (file set, order, fault point, kind)."
    " Fault kinds: BaseException, transient OSError, a real SIGINT, os._exit in a forked publisher; 'mid' faults fire inside the store'"
    's real put_item (shutil.copyfileobj dies after 7 bytes). Dot-files are among the image files. Real refresh_impl runs decide on a t'
    'hird of the states.'
)
ASSUMPTIONS = ["local store; crashes emulated by os._exit in a forked child (no power-loss semantics)"]
EXHAUSTIVE = {"quick": "all 24 directory orders x all 13 fault points x {exception, crash} for a 4-file image with index.wtml",
              "thorough": "all orders x all fault points for 4-, 5- and 6-file images; multi-image trees"}


class Crash(BaseException):
    pass


def cases(tier, seed):
    R = random.Random("c18/%d" % seed)
    out = []
    base4 = ["index.wtml", "L0X0Y0.png", "L1X0Y0.png", "thumb.jpg"]
    perms = list(itertools.permutations(base4))
    for i in range(0, len(perms), 4):
        for kind in ("exception", "crash", "transient") + (("sigint",) if i % 8 == 0 else ()):
            out.append(dict(images={"img1": base4}, perms=[list(p) for p in perms[i:i + 4]], kind=kind, seed=R.randrange(1 << 30)))
    names = ["index.wtml", "L0X0Y0.png", "L1X0Y0.png", "L1X1Y0.png", "thumb.jpg", "a_first.txt", "zz_last.bin", "index_rel.wtml", "Index.wtml", ".DS_Store", ".hidden.png"]
    nextra = 20 if tier == "quick" else 300
    for i in range(nextra):
        nim = R.choice([1, 1, 2, 3])
        images = {}
        for k in range(nim):
            nf = R.choice([1, 2, 3, 5, 6, 8])
            fs = R.sample(names[1:], min(nf, len(names) - 1))
            if R.random() < 0.8:
                fs[R.randrange(len(fs))] = "index.wtml"
            images["img%d" % k] = fs
        out.append(dict(images=images, perms=None, nperm=3 if tier == "quick" else 6, kind=R.choice(["exception", "crash", "transient", "sigint"]), seed=R.randrange(1 << 30)))
    if tier == "thorough":
        for files in (names[:5], names[:6]):
            perms = list(itertools.permutations(files))
            for i in range(0, len(perms), 12):
                out.append(dict(images={"img1": files}, perms=[list(p) for p in perms[i:i + 12]], kind=R.choice(["exception", "crash"]), seed=R.randrange(1 << 30)))
    return out


def content(img, f):
    return ("%s/%s|" % (img, f) * 40).encode()


def setup(workdir, images, n):
    from toasty.pipeline.local_io import LocalPipelineIo

    d = os.path.join(workdir, "t%d" % n)
    work, store = os.path.join(d, "work"), os.path.join(d, "store")
    os.makedirs(work)
    os.makedirs(store)
    LocalPipelineIo(store).save_config(os.path.join(work, "toasty-store-config.yaml"))
    with open(os.path.join(store, "toasty-pipeline-config.yaml"), "w") as fh:
        fh.write("source_type: _verif_fake\nfakesrc:\n  ids: [%s]\n" % ", ".join(sorted(images)))
    for img, files in images.items():
        ap = os.path.join(work, "approved", img)
        os.makedirs(ap)
        for f in files:
            with open(os.path.join(ap, f), "wb") as fh:
                fh.write(content(img, f))
    return d, work, store


REAL_LISTDIR = os.listdir
REAL_RENAME = os.rename


def run_publish(work, store, order, img_order, fault, kind, calls_path):
    """run publish() with the directory orders and the fault armed; returns 'ok' | 'fault'"""
    from toasty.pipeline import PipelineManager

    def fake_listdir(p):
        r = REAL_LISTDIR(p)
        bn = os.path.basename(p.rstrip("/"))
        if bn == "approved":
            return [i for i in img_order if i in r] + [i for i in r if i not in img_order]
        if os.path.basename(os.path.dirname(p.rstrip("/"))) == "approved" and bn in order:
            o = order[bn]
            return [f for f in o if f in r] + [f for f in r if f not in o]
        return r

    def body():
        mgr = PipelineManager(work)
        real_put = mgr._pipeio.put_item
        state = dict(k=0)

        def fail():
            if kind == "crash":
                os._exit(9)
            if kind == "sigint":
                # the operator presses Ctrl-C: a real SIGINT is delivered to the process at this point of the session
                import signal

                signal.raise_signal(signal.SIGINT)
                return  # (only reached if something has taken the interrupt over; the session then simply goes on)
            if kind == "transient":
                # an ordinary, transient I/O error of the store: only this one call fails. The class varies: a plain OSError, the
                # folder vanished under the writer (ENOENT), a reset connection, a time-out, a non-OSError from the store's client
                import errno as _e

                k = (state["k"] + len(calls_path)) % 5
                raise [OSError("injected transient store error"), FileNotFoundError(_e.ENOENT, "No such file or directory (injected: store folder unmounted)"),
                       ConnectionResetError(_e.ECONNRESET, "Connection reset by peer (injected)"), TimeoutError(_e.ETIMEDOUT, "timed out (injected)"),
                       RuntimeError("injected failure of the store client")][k]
            raise Crash()

        def put(*path, source=None):
            k = state["k"]
            state["k"] += 1
            with open(calls_path, "a") as fh:
                fh.write("/".join(path) + "\n")
            if fault and fault[0] == "put" and fault[1] == k:
                ph = fault[2]
                if ph == "before":
                    fail()
                if ph == "mid":
                    # the failure happens INSIDE the store's own put_item, while the data are being copied: 7 bytes are
                    # written through whatever file the real code opened, then the copy dies
                    import shutil as _sh

                    real_copy = _sh.copyfileobj

                    def dying_copy(src, dst, *a, **k):
                        dst.write(src.read()[:7])
                        dst.flush()
                        with open(calls_path + ".mid", "a") as fh2:
                            fh2.write("x")
                        fail()

                    _sh.copyfileobj = dying_copy
                    try:
                        real_put(*path, source=source)
                    finally:
                        _sh.copyfileobj = real_copy
                    fail()  # the store did not copy through shutil.copyfileobj: the failure falls right after the item
                real_put(*path, source=source)
                fail()
            real_put(*path, source=source)

        def rename(a, b):
            if fault and fault[0] == "rename" and os.path.basename(a) == fault[1]:
                fail()
            return REAL_RENAME(a, b)

        mgr._pipeio.put_item = put
        with mock.patch("os.listdir", fake_listdir), mock.patch("os.rename", rename):
            import contextlib

            with contextlib.redirect_stdout(io.StringIO()):
                mgr.publish()

    if kind == "crash":
        pid = os.fork()
        if pid == 0:
            code = 0
            try:
                body()
            except BaseException:
                code = 7
            os._exit(code)
        _, st = os.waitpid(pid, 0)
        code = os.waitstatus_to_exitcode(st)
        return "ok" if code == 0 else ("fault" if code == 9 else "error%d" % code)
    import signal

    old_handler = signal.signal(signal.SIGINT, signal.default_int_handler) if kind == "sigint" else None
    try:
        body()
        return "ok"
    except (Crash, OSError, KeyboardInterrupt, RuntimeError):
        return "fault"
    finally:
        if old_handler is not None:
            signal.signal(signal.SIGINT, old_handler)


def real_refresh(work, store, images, probs, label):
    """run the real `toasty pipeline refresh` with an image source that offers exactly our images: a partially published
    image must be offered for processing again (a candidate file is saved for it), never counted as already done"""
    import argparse
    import contextlib

    from toasty import pipeline
    from toasty.pipeline import cli as pcli

    class Cand(pipeline.CandidateInput):
        def __init__(self, i):
            self.i = i

        def get_unique_id(self):
            return self.i

        def save(self, stream):
            stream.write(b"candidate")

    class Src(pipeline.ImageSource):
        ids = []

        @classmethod
        def get_config_key(cls):
            return "fakesrc"

        @classmethod
        def deserialize(cls, data):
            inst = cls()
            inst.ids = list(data["ids"])
            return inst

        def query_candidates(self):
            for i in self.ids:
                yield Cand(i)

        def fetch_candidate(self, unique_id, cand_data_stream, cachedir):
            pass

        def process(self, unique_id, cand_data_stream, cachedir, builder):
            pass

    pipeline.IMAGE_SOURCE_CLASS_LOADERS["_verif_fake"] = lambda: Src
    shutil.rmtree(os.path.join(work, "candidates"), ignore_errors=True)
    with contextlib.redirect_stdout(io.StringIO()):
        pcli.refresh_impl(argparse.Namespace(workdir=work))
    n = 0
    for img, files in images.items():
        sdir = os.path.join(store, img)
        # the statement is about the OTHER files of the image (index.wtml itself may be the transfer that was interrupted)
        complete = all(os.path.exists(os.path.join(sdir, f)) and open(os.path.join(sdir, f), "rb").read() == content(img, f) for f in files if f != "index.wtml")
        offered = os.path.exists(os.path.join(work, "candidates", img))
        n += 1
        if not complete and not offered and "index.wtml" in files:
            probs.append(("refresh-skipped-partial-image", "%s: `pipeline refresh` skipped %s as already done although the store lacks or truncates some of its files" % (label, img)))
    return n


def check_state(work, store, images, calls, outcome, faulted_img, probs, label):
    for img, files in images.items():
        sdir = os.path.join(store, img)
        have = set(REAL_LISTDIR(sdir)) if os.path.isdir(sdir) else set()

        def intact(f):
            p = os.path.join(sdir, f)
            return f in have and open(p, "rb").read() == content(img, f)

        others_ok = all(intact(f) for f in files if f != "index.wtml")
        has_index = "index.wtml" in have
        if has_index and not others_ok:
            missing = [f for f in files if f != "index.wtml" and not intact(f)]
            probs.append(("index-before-others", "%s: store has %s/index.wtml but %s missing or incomplete" % (label, img, missing)))
        seq = [c.split("/")[-1] for c in calls if c.split("/")[0] == img]
        if "index.wtml" in seq and "index.wtml" in files:
            if seq.index("index.wtml") != len(files) - 1 and len(seq) > seq.index("index.wtml") + 1:
                probs.append(("index-not-last", "%s: put_item order for %s is %s" % (label, img, seq)))
        moved = os.path.isdir(os.path.join(work, "published", img))
        still = os.path.isdir(os.path.join(work, "approved", img))
        if moved == still:
            probs.append(("approved-published-state", "%s: %s in approved=%s and published=%s" % (label, img, still, moved)))
        if moved:
            if img == faulted_img:
                probs.append(("moved-despite-failure", "%s: %s moved to published/ although its publication failed" % (label, img)))
            if not (others_ok and (has_index and intact("index.wtml") or "index.wtml" not in files)):
                probs.append(("moved-incomplete", "%s: %s is in published/ but the store is incomplete" % (label, img)))
        if still:
            left = set(REAL_LISTDIR(os.path.join(work, "approved", img)))
            if left != set(files):
                probs.append(("approved-damaged", "%s: approved/%s lost files %s" % (label, img, sorted(set(files) - left))))
        # refresh's decision
        from toasty.pipeline.local_io import LocalPipelineIo

        if LocalPipelineIo(store).check_exists(img, "index.wtml") and not others_ok:
            probs.append(("refresh-would-skip-partial", "%s: refresh would treat %s as done although it is partial" % (label, img)))


def run_case(spec, workdir):
    R = random.Random(spec["seed"])
    images = spec["images"]
    first = sorted(images)[0]
    if spec["perms"] is not None:
        orders = [{first: p} for p in spec["perms"]]
    else:
        orders = []
        for _ in range(spec["nperm"]):
            orders.append({img: R.sample(fs, len(fs)) for img, fs in images.items()})
    probs = []
    n = 0
    sigs = []
    counters = collections.Counter()
    for order in orders:
        img_order = R.sample(sorted(images), len(images))
        # fault points: every put (global index) x phase, every rename, plus the fault-free run
        total_puts = sum(len(v) for v in images.values())
        faults = [None] + [("put", k, ph) for k in range(total_puts) for ph in ("before", "mid", "after")] + [("rename", img) for img in images]
        for fault in faults:
            n += 1
            d, work, store = setup(workdir, images, n)
            calls_path = os.path.join(d, "calls")
            outcome = run_publish(work, store, order, img_order, fault, spec["kind"], calls_path)
            calls = open(calls_path).read().split() if os.path.exists(calls_path) else []
            label = "order=%s images=%s fault=%s kind=%s" % (order, img_order, fault, spec["kind"])
            if outcome.startswith("error"):
                probs.append(("publish-error", "%s: publish failed unexpectedly (%s)" % (label, outcome)))
            if fault is None and outcome != "ok":
                probs.append(("publish-error", "%s: fault-free publish did not complete" % label))
            if fault is not None and outcome == "ok":
                probs.append(("fault-swallowed", "%s: the injected failure did not stop publish()" % label))
            faulted = None
            if fault is not None:
                if fault[0] == "rename":
                    faulted = fault[1]
                else:
                    # image that owns the k-th put
                    faulted = calls[fault[1]].split("/")[0] if len(calls) > fault[1] else None
            check_state(work, store, images, calls, outcome, faulted, probs, label)
            if n % 3 == 0 or fault is None:
                counters["real_refresh_decisions"] += real_refresh(work, store, images, probs, label)
            counters["fault_cases"] += 1
            counters["faults_inside_the_real_put_item"] += int(os.path.exists(calls_path + ".mid"))
            counters["faults_" + (fault[0] + ("_" + fault[2] if fault and fault[0] == "put" else "") if fault else "none")] += 1
            # recovery
            out2 = run_publish(work, store, {}, [], None, "exception", calls_path + "2")
            p2 = []
            check_state(work, store, images, [], out2, None, p2, label + " [after re-run]")
            for img, files in images.items():
                sdir = os.path.join(store, img)
                if not all(os.path.exists(os.path.join(sdir, f)) and open(os.path.join(sdir, f), "rb").read() == content(img, f) for f in files):
                    p2.append(("rerun-incomplete", "%s: re-running publish did not complete %s" % (label, img)))
                if not os.path.isdir(os.path.join(work, "published", img)):
                    p2.append(("rerun-not-moved", "%s: %s not in published/ after the re-run" % (label, img)))
            probs += p2
            sigs.append("%s|%s|%s|%s" % (sorted((k, tuple(v)) for k, v in images.items()), sorted(order.items()), fault, spec["kind"]))
            shutil.rmtree(d, ignore_errors=True)
            if len(probs) > 8:
                break
        if len(probs) > 8:
            break
    counters["kind_" + spec["kind"]] += n
    res = dict(counters=dict(counters), nontrivial=True, sigs=sigs,
               sample=dict(images=images, orders=orders[:1], kind=spec["kind"], fault_points=len(faults)))
    if probs:
        keys = sorted({k for k, _ in probs})
        res.update(status="violation", key="+".join(keys)[:140], detail="; ".join(t for _, t in probs[:4]))
    return res


def finish(agg, tier):
    c = agg["counters"]
    if c.get("fault_cases", 0) < 500 or c.get("kind_crash", 0) < 100 or c.get("faults_put_mid", 0) < 50 or c.get("faults_rename", 0) < 20 or c.get("faults_inside_the_real_put_item", 0) < 50:
        return dict(inconclusive="fault enumeration incomplete: %s" % c)
    return dict(coverage=dict(evaluations=c["fault_cases"]))
