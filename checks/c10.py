"""C10: concurrent updates of one tile never lose a contribution (serial-chain oracle over a recorded history)."""
import collections
import json
import os
import random
import time

import numpy as np

from vlib import evlog, sched

PROPERTY = "C10"
REPLAY_REPEATS = 10
LEVEL = "exploration"
JOBS = 8
CASE_TIMEOUT = 240
RULE = (
    "one case = one history: N in 2..8 real processes x M in 1..6 updates each of the SAME tile through PyramidIO.update_image, "
    "with a 0-20 ms body inside the lock; every contribution has a unique id and writes value id+1 into its own row (disjoint), or "
    "into a common block (replace for floats/RGBA, maximum for integers). Each update logs what it observed in the basis. "
    "Oracle: observations form one serial chain (A.4 in DESIGN.md) and the final file holds every contribution; a basis in which a "
    "contribution is partly present, or that cannot be loaded, is a torn read. Variant 'sampling': two concurrent "
    "sample_layer_filtered runs whose samplers define disjoint pixel sets of the same tiles. Non-trivial: at least two updates "
    "overlapped in time (an update_call logged while another updater was inside its update); distinct by case spec."
    " Also: statement-boundary delays inside toasty's tile I/O; short histories in which updaters exit while others contend; a 105 s (d"
    "ilated) and a real 2.6 s hold; updaters with different SLURM_* environments; 'stage' histories = the real MultiTanProcessor / Mult"
    'iWcsProcessor in parallel with every input landing in the same tile(s), incl. one worker that starts late.'
    " Round 8: 'mixspell' histories - updaters spell the pyramid directory differently (trailing separator, relative path, '..' detour, symbolic link)."
)
ASSUMPTIONS = ["unique contribution ids make the history unambiguous", "body delay inside the critical section is legitimate caller behaviour"]
MODES = {
    "npy": ["F32", "F64", "U8", "I16", "I32", "RGBA"],
    "fits": ["F32", "F64", "U8", "I16", "I32"],
    "png": ["RGBA"],
}
DT = dict(F32=np.float32, F64=np.float64, U8=np.uint8, I16=np.int16, I32=np.int32)


def cases(tier, seed):
    R = random.Random("c10/%d" % seed)
    out = []
    n = 42 if tier == "quick" else 2500
    combos = [(f, m) for f in MODES for m in MODES[f]]
    for i in range(n):
        fmt, mode = combos[i % len(combos)]
        N = R.choice([2, 3, 4, 6, 8])
        M = R.choice([1, 2, 3, 6]) if N <= 4 else R.choice([1, 2, 3])
        out.append(dict(t="hist", fmt=fmt, mode=mode, N=N, M=M, layout=R.choice(["disjoint", "disjoint", "common"]),
                        pos=[R.choice([0, 1, 3]), 0, 0], maxdelay=R.choice([0.0, 0.005, 0.02]), seed=R.randrange(1 << 30),
                        prior=R.choice(["none", "none", "file"]), mixfmt=(i % 3 == 0), longhold=(i % 5 == 2), pause_after_release=(i % 4 == 1),
                        linedelay=(i % 3 == 1), mixenv=(i % 4 == 2), mixspell=(i % 4 == 3)))
        if out[-1]["linedelay"] and i % 2:
            out[-1].update(N=R.choice([4, 6, 8]), M=R.choice([1, 1, 2]))  # updaters that finish and exit while others still contend
    for i in range(36 if tier == "quick" else 700):
        # many short histories in which updaters finish and exit while others still contend, under statement-boundary delays
        fmt, mode = combos[(i * 5) % len(combos)]
        out.append(dict(t="hist", fmt=fmt, mode=mode, N=R.choice([4, 6, 8]), M=R.choice([1, 1, 2]), layout=R.choice(["disjoint", "disjoint", "common"]),
                        pos=[0, 0, 0], maxdelay=R.choice([0.0, 0.005, 0.02]), seed=R.randrange(1 << 30), prior="none", mixfmt=False, longhold=False,
                        pause_after_release=False, linedelay=True))
    for i in range(2 if tier == "quick" else 20):
        fmt, mode = combos[(i * 7) % len(combos)]
        out.append(dict(t="hist", fmt=fmt, mode=mode, N=3, M=2, layout="disjoint", pos=[0, 0, 0], maxdelay=0.005, seed=R.randrange(1 << 30), prior="none", mixfmt=False,
                        longhold=False, pause_after_release=False, linedelay=False, realhold=True))
    for i in range(3 if tier == "quick" else 30):
        fmt, mode = combos[(i * 11) % len(combos)]
        out.append(dict(t="hist", fmt=fmt, mode=mode, N=3, M=R.choice([2, 3]), layout="disjoint", pos=[0, 0, 0], maxdelay=0.02, seed=R.randrange(1 << 30), prior="none", mixfmt=False,
                        longhold=False, pause_after_release=False, linedelay=False, fresh_interpreters=True))
    for i in range(10 if tier == "quick" else 200):
        out.append(dict(t="stage", kind=["mtan", "mwcs"][i % 2], n=R.choice([3, 4, 6]), par=R.choice([2, 3, 4]), size=R.choice([200, 256, 400]),
                        profile=R.choice(["natural", "slow_workers", "jitter", "one_late", "one_late"]), seed=R.randrange(1 << 30)))
        if out[-1]["profile"] == "one_late":
            out[-1].update(par=R.choice([3, 4]), n=R.choice([6, 8]))
    for i in range(10 if tier == "quick" else 150):
        # one worker starts to run while its siblings are already inside updates of a shared tile
        out.append(dict(t="stage", kind=["mtan", "mtan", "mtan", "mtan", "mwcs"][i % 5], n=R.choice([6, 8]), par=R.choice([3, 4]), size=R.choice([200, 256, 400]),
                        profile="one_late", seed=R.randrange(1 << 30)))
    for i in range(8 if tier == "quick" else 120):
        out.append(dict(t="sampling", fmt=R.choice(["npy", "fits", "png"]), depth=R.choice([1, 1, 2]), seed=R.randrange(1 << 30), parts=R.choice([2, 3])))
    for s in out:
        s["pos"] = s.get("pos") and [s["pos"][0], R.randrange(1 << s["pos"][0]), R.randrange(1 << s["pos"][0])]
    return out


def _mode(name):
    from toasty.image import ImageMode

    return getattr(ImageMode, name)


def _contrib_image(spec, cid):
    """source image holding only contribution cid (everything else undefined)"""
    from toasty.image import Image

    mode = spec["mode"]
    val = cid + 1
    if mode == "RGBA":
        a = np.zeros((256, 256, 4), np.uint8)
        sl = (slice(cid, cid + 1), slice(None)) if spec["layout"] == "disjoint" else (slice(100, 140), slice(60, 200))
        a[sl] = (val, val, val, 255)
    else:
        dt = DT[mode]
        a = np.full((256, 256), np.nan if np.dtype(dt).kind == "f" else 0, dt)
        sl = (slice(cid, cid + 1), slice(None)) if spec["layout"] == "disjoint" else (slice(100, 140), slice(60, 200))
        a[sl] = val
    return Image.from_array(a)


def _observe(spec, arr, total):
    """what contributions does this basis array show? returns (set/ value, torn list)"""
    mode = spec["mode"]
    if arr.ndim == 3:
        v = arr[..., 0].astype(np.int64)
        defined = arr[..., 3] != 0
        # all channels consistent?
        cons = (arr[..., 0] == arr[..., 1]) & (arr[..., 1] == arr[..., 2]) & ((arr[..., 3] == 255) | (arr[..., 3] == 0))
        if not cons.all():
            return None, ["inconsistent RGBA channels in %d pixels" % int((~cons).sum())]
    elif arr.dtype.kind == "f":
        defined = ~np.isnan(arr)
        v = np.where(defined, arr, 0).astype(np.int64)
    else:
        defined = arr != 0
        v = arr.astype(np.int64)
    torn = []
    if spec["layout"] == "disjoint":
        seen = set()
        for c in range(total):
            row_def = defined[c]
            if row_def.all() and (v[c] == c + 1).all():
                seen.add(c)
            elif not row_def.any():
                pass
            else:
                torn.append("contribution %d partly present (%d/256 pixels)" % (c, int(row_def.sum())))
        if defined[total:].any():
            torn.append("pixels defined outside all contributions")
        return sorted(seen), torn
    blk = v[100:140, 60:200]
    bdef = defined[100:140, 60:200]
    out_def = defined.copy()
    out_def[100:140, 60:200] = False
    if out_def.any():
        torn.append("pixels defined outside the common block")
    if not bdef.any():
        return 0, torn
    if not bdef.all() or blk.min() != blk.max():
        torn.append("common block mixes values %s (defined %d/%d)" % (sorted(set(blk.flatten().tolist()))[:5], int(bdef.sum()), bdef.size))
        return None, torn
    return int(blk[0, 0]), torn


def _dilate_monotonic_clocks(factor):
    """virtual time for lock time-outs: perf_counter/monotonic run `factor` times faster in this process, so that a
    holder that stays 0.3 s inside the critical section has held it for minutes on the clock a lock time-out reads.
    (time.time is left alone: filelock compares it with file mtimes.)"""
    import time as _t

    for name in ("perf_counter", "monotonic"):
        real = getattr(_t, name)
        t0 = real()
        setattr(_t, name, (lambda real=real, t0=t0: t0 + (real() - t0) * factor))


def _updater(spec, base, idx, go_path):
    from toasty.pyramid import Pos, PyramidIO

    if spec.get("longhold"):
        _dilate_monotonic_clocks(300.0)
    if spec.get("pause_after_release"):
        # a process can be descheduled between any two statements: here right after the lock library released the lock,
        # i.e. before whatever the caller of the library does next
        import filelock

        _orig_release = filelock.BaseFileLock.release
        _R2 = random.Random("%d/rel/%d" % (spec["seed"], idx))

        def release(self, *a, **k):
            r = _orig_release(self, *a, **k)
            if _R2.random() < 0.6:
                time.sleep(0.03 + 0.07 * _R2.random())
            return r

        filelock.BaseFileLock.release = release

    if spec.get("mixenv") and idx % 2:
        # the updaters do not share one environment: a batch job and an interactive shell working on the same pyramid
        os.environ.update(SLURM_JOB_ID="4242", SLURM_NPROCS="8", SLURM_CPUS_ON_NODE="8")
    if spec.get("linedelay"):
        # descheduling between any two statements of toasty's own tile I/O code (not of the lock library)
        sched.install(spec["seed"] + idx, p=0.06, files=("pyramid.py",), lo=0.002, hi=0.25, budget=4.0)
    if spec.get("mixspell"):
        # the updaters name the one pyramid directory in different, equivalent ways (a trailing separator, a relative path,
        # a detour through '..', a symbolic link) - separate jobs started from different places with different habits
        k = idx % 5
        # (the pyramid's root directory exists before anybody refers to it through a link or a '..' detour: a dangling link is
        # not a spelling of the directory - a false alarm of this harness in the seed sweep, FileNotFoundError in updater 4)
        os.makedirs(base, exist_ok=True)
        if k == 1:
            base = base + os.sep
        elif k == 2:
            os.chdir(os.path.dirname(base))
            base = os.path.basename(base)
        elif k == 3:
            base = os.path.join(base, os.pardir, os.path.basename(base))
        elif k == 4:
            link = base + "-link"
            try:
                os.symlink(base, link)
            except FileExistsError:
                pass
            base = link + os.sep
    pio = PyramidIO(base, default_format=spec["fmt"])
    pos = Pos(*spec["pos"])
    R = random.Random("%d/%d" % (spec["seed"], idx))
    total = spec["N"] * spec["M"]
    while not os.path.exists(go_path):
        time.sleep(0.001)
    for j in range(spec["M"]):
        cid = idx * spec["M"] + j
        img = _contrib_image(spec, cid)
        evlog.ev("upd_call", cid=cid)
        try:
            kw = dict(format=spec["fmt"]) if (spec.get("mixfmt") and idx % 2) else {}
            with pio.update_image(pos, masked_mode=img.mode, default="masked", **kw) as basis:
                evlog.ev("upd_enter", cid=cid)
                obs, torn = _observe(spec, np.array(basis.asarray()), total)
                evlog.ev("upd_observed", cid=cid, obs=obs, torn=torn)
                if spec["maxdelay"]:
                    time.sleep(R.random() * spec["maxdelay"])
                if spec.get("longhold") and idx == 0 and j == 0:
                    time.sleep(0.35)  # = 105 s of dilated monotonic time
                if spec.get("realhold") and idx == 0 and j == 0:
                    time.sleep(2.6)  # wall-clock ages (file mtimes against time.time) cannot be dilated: hold for real
                img.update_into_maskable_buffer(basis, slice(None), slice(None), slice(None), slice(None))
                evlog.ev("upd_body_done", cid=cid)
            evlog.ev("upd_ret", cid=cid)
        except BaseException as e:
            evlog.ev("upd_exc", cid=cid, e=repr(e)[:300])
        if R.random() < 0.5:
            time.sleep(R.random() * 0.01)
    if spec.get("linedelay"):
        evlog.ev("sched_stats", **sched.stats())


def _read_final(spec, base):
    from toasty.pyramid import Pos, PyramidIO

    pio = PyramidIO(base, default_format=spec["fmt"])
    img = pio.read_image(Pos(*spec["pos"]))
    return None if img is None else np.array(img.asarray())


def chain_check(spec, recs, final):
    """serial-chain oracle; returns list of (key, text)"""
    v = []
    total = spec["N"] * spec["M"]
    obs = {}
    for r in recs:
        if r["k"] == "upd_exc":
            v.append(("update-raised", "update of contribution %d raised %s" % (r["cid"], r["e"])))
        elif r["k"] == "upd_observed":
            obs[r["cid"]] = r["obs"]
            for t in r.get("torn") or []:
                v.append(("torn-read", "updater of contribution %d saw: %s" % (r["cid"], t)))
    # mutual exclusion at the hook: nobody enters the critical section while another updater is between enter and body_done
    inside = None
    for r in recs:
        if r["k"] == "upd_enter":
            if inside is not None and inside != r["cid"]:
                v.append(("two-updaters-inside", "update of contribution %d entered the locked region while the update of contribution %d was still inside it" % (r["cid"], inside)))
            inside = r["cid"]
        elif r["k"] in ("upd_body_done", "upd_exc") and inside == r.get("cid"):
            inside = None
    done = {r["cid"] for r in recs if r["k"] == "upd_ret"}
    if len(done) != total:
        v.append(("update-incomplete", "%d of %d updates completed" % (len(done), total)))
        return v
    if final is None:
        v.append(("lost-update", "no tile file after %d updates" % total))
        return v
    fobs, ftorn = _observe(spec, final, total)
    for t in ftorn:
        v.append(("torn-final", "final tile: %s" % t))
    if spec["layout"] == "disjoint":
        if fobs is not None and set(fobs) != set(range(total)):
            v.append(("lost-update", "final tile lacks contributions %s" % sorted(set(range(total)) - set(fobs))[:8]))
        seq = sorted(obs.items(), key=lambda kv: len(kv[1]))
        cur = set()
        for i, (cid, o) in enumerate(seq):
            if set(o) != cur:
                v.append(("not-serializable", "update #%d (contribution %d) observed %s but a serial history requires %s" % (i, cid, sorted(o)[:10], sorted(cur)[:10])))
                break
            cur = cur | {cid}
        return v
    is_max = spec["mode"] in ("U8", "I16", "I32")
    vals = {cid: cid + 1 for cid in obs}
    if None in obs.values():
        return v
    if is_max:
        if fobs != max(vals.values()):
            v.append(("lost-update", "final value %s is not the maximum %d" % (fobs, max(vals.values()))))
        m = 0
        rest = dict(obs)
        while rest:
            cand = [c for c, o in rest.items() if o == m]
            if not cand:
                v.append(("not-serializable", "no remaining update observed the running maximum %d; remaining observations %s" % (m, sorted(rest.values())[:8])))
                break
            low = [c for c in cand if vals[c] <= m]
            if low:
                rest.pop(low[0])
                continue
            if len(cand) > 1:
                v.append(("not-serializable", "updates %s all observed %d though each raises the maximum" % (cand[:5], m)))
                break
            m = vals[cand[0]]
            rest.pop(cand[0])
        return v
    # replace: linked list
    prevs = collections.Counter(obs.values())
    if any(n > 1 for n in prevs.values()):
        v.append(("not-serializable", "values %s were each observed by more than one update (lost update)" % [k for k, n in prevs.items() if n > 1][:5]))
    if prevs.get(0, 0) != 1:
        v.append(("not-serializable", "%d updates observed an empty tile" % prevs.get(0, 0)))
    unobserved = set(vals.values()) - set(prevs)
    if fobs is not None and (len(unobserved) != 1 or fobs not in unobserved):
        v.append(("lost-update", "final value %s; values never observed by a later update: %s" % (fobs, sorted(unobserved)[:6])))
    return v


def case_hist(spec, workdir):
    from toasty.image import Image
    from toasty.pyramid import Pos, PyramidIO

    base = os.path.join(workdir, "pyr")
    log = os.path.join(workdir, "log")
    evlog.open_log(log)
    if spec["prior"] == "file":
        # a pre-existing fully undefined-but-stored state is impossible; start from a file holding nothing of ours
        pass
    go = os.path.join(workdir, "go")
    pids = []
    procs = []
    for i in range(spec["N"]):
        if spec.get("fresh_interpreters"):
            # updaters that are NOT forked from one parent: separately started interpreters (other jobs, other nodes, the spawn
            # start method) - nothing they compute per process (hash salts, caches) is shared
            import subprocess
            import sys

            from vlib.core import repo_root

            code = ("import sys, json; sys.path[:0] = [%r, %r]; from vlib import evlog; from checks import c10; evlog.open_log_append(%r); "
                    "c10._updater(json.loads(%r), %r, %d, %r)") % (repo_root(), os.path.dirname(os.path.dirname(os.path.abspath(__file__))), log, json.dumps(spec), base, i, go)
            env = {k: v for k, v in os.environ.items() if k != "PYTHONHASHSEED"}
            pr = subprocess.Popen([sys.executable, "-c", code], env=env)
            procs.append(pr)
            continue
        pid = os.fork()
        if pid == 0:
            code = 0
            try:
                _updater(spec, base, i, go)
            except BaseException as e:
                evlog.ev("updater_crash", e=repr(e)[:300])
                code = 1
            os._exit(code)
        pids.append(pid)
    if procs:
        time.sleep(1.5)  # let the interpreters import numpy / astropy / toasty before the common start signal
    open(go, "w").close()
    t0 = time.time()
    alive = set(pids)
    while alive and time.time() - t0 < 150:
        for p in list(alive):
            r, st = os.waitpid(p, os.WNOHANG)
            if r:
                alive.discard(p)
        time.sleep(0.01)
    for pr in procs:
        try:
            pr.wait(timeout=max(1, 150 - (time.time() - t0)))
        except Exception:
            pr.kill()
            evlog.close_log()
            return dict(status="inconclusive", detail="a separately started updater did not finish within the watchdog")
    if alive:
        import signal

        for p in alive:
            os.kill(p, signal.SIGKILL)
            os.waitpid(p, 0)
        evlog.close_log()
        return dict(status="inconclusive", detail="updaters did not finish within the watchdog")
    recs = evlog.read(log)
    evlog.close_log()
    try:
        final = _read_final(spec, base)
    except Exception as e:
        return dict(status="violation", key="final-unreadable", detail="final tile cannot be loaded: %r" % e, witness_files=dict(eventlog=log))
    v = chain_check(spec, recs, final)
    # contention measure: an update that waited for the lock while another updater was inside its critical section
    call_i, enter_i = {}, {}
    enters = []
    for i, r in enumerate(recs):
        if r["k"] == "upd_call":
            call_i[r["cid"]] = i
        elif r["k"] == "upd_enter":
            enter_i[r["cid"]] = i
            enters.append(i)
    overlaps = sum(1 for c in enter_i if any(call_i.get(c, 1 << 60) < e < enter_i[c] for e in enters))
    locks = [f for root, _, fs in os.walk(base) for f in fs if f.endswith(".lock")]
    counters = collections.Counter(histories=1, updates=spec["N"] * spec["M"], overlapping_update_calls=overlaps)
    counters["hist_%s_%s_%s" % (spec["fmt"], spec["mode"], spec["layout"])] += 1
    counters["statement_delays_injected"] = sum(r.get("injected", 0) for r in recs if r["k"] == "sched_stats")
    counters["histories_with_statement_delays"] = int(bool(spec.get("linedelay")))
    res = dict(counters=dict(counters), nontrivial=overlaps >= 1,
               sets=dict(mode_fmt_layout=[[spec["fmt"], spec["mode"], spec["layout"]]]),
               sample=dict(spec=spec, overlaps=overlaps,
                           observations=[(r["cid"], r["obs"] if not isinstance(r["obs"], list) else len(r["obs"])) for r in recs if r["k"] == "upd_observed"][:12]))
    if v:
        keys = sorted({k for k, _ in v})
        res.update(status="violation", key=keys[0] if len(keys) == 1 else "+".join(keys)[:100], detail="; ".join(t for _, t in v[:5]), witness_files=dict(eventlog=log))
    else:
        res["status"] = "held"
    return res


def case_sampling(spec, workdir):
    """concurrent sample_layer_filtered runs whose samplers define disjoint pixel sets of the same tiles"""
    from toasty import toast
    from toasty.pyramid import Pos, PyramidIO

    base = os.path.join(workdir, "pyr")
    parts = spec["parts"]
    fmt = spec["fmt"]
    depth = spec["depth"]

    def make_sampler(k):
        def s(lon, lat):
            time.sleep(0.01 + 0.02 * random.random())  # a slow source widens every read-modify-write window
            if fmt == "png":
                out = np.zeros(lon.shape + (4,), np.uint8)
                cols = np.arange(lon.shape[1]) % parts == k
                out[:, cols, :3] = k + 1
                out[:, cols, 3] = 255
                return out
            out = np.full(lon.shape, np.nan, np.float32)
            cols = np.arange(lon.shape[1]) % parts == k
            out[:, cols] = k + 1
            return out

        return s

    log = os.path.join(workdir, "log")
    evlog.open_log(log)
    pids = []
    go = os.path.join(workdir, "go")
    for k in range(parts):
        pid = os.fork()
        if pid == 0:
            code = 0
            try:
                while not os.path.exists(go):
                    time.sleep(0.001)
                pio = PyramidIO(base, default_format=fmt)
                toast.sample_layer_filtered(pio, lambda t: True, make_sampler(k), depth, parallel=1)
                evlog.ev("sampler_done", part=k)
            except BaseException as e:
                evlog.ev("sampler_exc", part=k, e=repr(e)[:300])
                code = 1
            os._exit(code)
        pids.append(pid)
    open(go, "w").close()
    for p in pids:
        os.waitpid(p, 0)
    recs = evlog.read(log)
    evlog.close_log()
    v = []
    for r in recs:
        if r["k"] == "sampler_exc":
            v.append(("update-raised", "sampling run %d raised %s" % (r["part"], r["e"])))
    pio = PyramidIO(base, default_format=fmt)
    n = 0
    for x in range(1 << depth):
        for y in range(1 << depth):
            img = pio.read_image(Pos(depth, x, y))
            n += 1
            if img is None:
                v.append(("lost-update", "tile (%d,%d,%d) missing" % (depth, x, y)))
                continue
            a = np.array(img.asarray())
            got = a[..., 0] if a.ndim == 3 else a
            exp = (np.arange(256) % parts + 1)[None, :].repeat(256, 0)
            if a.ndim == 3 and not (a[..., 3] == 255).all():
                v.append(("lost-update", "tile (%d,%d,%d): %d pixels still transparent" % (depth, x, y, int((a[..., 3] != 255).sum()))))
            elif not np.array_equal(got, exp):
                bad = ~(got == exp)
                v.append(("lost-update", "tile (%d,%d,%d): %d pixels lack their contribution" % (depth, x, y, int(bad.sum()))))
    res = dict(counters=dict(sampling_histories=1, sampling_tiles=n), nontrivial=True, sample=dict(spec=spec))
    if v:
        keys = sorted({k for k, _ in v})
        res.update(status="violation", key="sampling:" + keys[0], detail="; ".join(t for _, t in v[:5]))
    else:
        res["status"] = "held"
    return res


def case_stage(spec, workdir):
    """the real multi-image stages (MultiTanProcessor / MultiWcsProcessor, parallel) with every input landing in the same tile(s):
    each input defines its own rows of the mosaic and is undefined elsewhere; workers are descheduled between statements of
    toasty's tile I/O, so updates are slow and still running when the last item has been handed out"""
    from vlib import fitsgen, instr_mp, models, tilegen, ref_study

    from toasty.builder import Builder
    from toasty.collection import SimpleFitsCollection
    from toasty.pyramid import PyramidIO

    R = random.Random(spec["seed"])
    rng = np.random.default_rng(spec["seed"])
    W = H = spec["size"]
    n = spec["n"]
    mosaic = rng.normal(size=(H, W)).astype(np.float32)
    ref = (W / 2.0, H / 2.0)
    scale = 10 ** R.uniform(-4, -3)
    crval = (R.uniform(0, 360), R.uniform(-60, 60))
    ind = os.path.join(workdir, "in")
    os.makedirs(ind)
    paths = []
    for k in range(n):
        src = np.full((H, W), np.nan, np.float32)
        src[k::n] = mosaic[k::n]
        paths.append(fitsgen.write_piece(os.path.join(ind, "p%02d.fits" % k), src, (0, 0, W, H), ref, scale=scale, crval=crval, bottoms_up=bool(k % 2) if spec["kind"] == "mwcs" else bool(spec["seed"] % 2)))
    out = os.path.join(workdir, "pyr")
    log = os.path.join(workdir, "log")
    evlog.open_log(log)
    instr_mp.install(spec["profile"], spec["seed"])
    if spec["profile"] == "one_late":
        sched.install(spec["seed"], p=0.10, files=("pyramid.py",), lo=0.01, hi=0.15, budget=4.0)  # long updates: somebody always holds, somebody waits
    else:
        sched.install(spec["seed"], p=0.05, files=("pyramid.py",), lo=0.002, hi=0.12, budget=2.5)
    pio = PyramidIO(out, default_format="fits")
    b = Builder(pio)
    if spec["kind"] == "mtan":
        from toasty.multi_tan import MultiTanProcessor

        proc = MultiTanProcessor(SimpleFitsCollection(paths))
        proc.compute_global_pixelization(b)
        fn = lambda: proc.tile(pio, parallel=spec["par"])
    else:
        from toasty.multi_wcs import MultiWcsProcessor

        proc = MultiWcsProcessor(SimpleFitsCollection(paths))
        proc.compute_global_pixelization(b)
        fn = lambda: proc.tile(pio, _reproject_identity, parallel=spec["par"])
    try:
        outcome, info = models.run_stage(fn, log, "producer", watchdog=150)
    finally:
        sched.uninstall()
        instr_mp.uninstall()
    recs = evlog.read(log)
    evlog.close_log()
    if outcome == "watchdog":
        return dict(status="inconclusive", detail="watchdog")
    if outcome != "returned":
        return dict(status="violation", key="stage-" + outcome, detail="%s stage outcome %s %s %s" % (spec["kind"], outcome, info, [r.get("e") for r in recs if r["k"] == "stage_exc"][:2]))
    v = []
    levels = b.imgset.tile_levels
    nt = 0
    lost = 0
    tiles = sorted(tilegen.list_tiles(out, "fits"))
    deepest = [t for t in tiles if t[0] == levels]
    if spec["kind"] == "mtan":
        g = ref_study.geometry(W, H)
        P = g["p2n"]
        canvas = np.full((P, P), np.nan, np.float32)
        canvas[g["gy0"]:g["gy0"] + H, g["gx0"]:g["gx0"] + W] = mosaic
        for ty in range(P // 256):
            for tx in range(P // 256):
                cut = canvas[ty * 256:(ty + 1) * 256, tx * 256:(tx + 1) * 256]
                if np.isnan(cut).all():
                    continue
                t = tilegen.read_tile(out, (g["levels"], tx, ty), "fits")
                nt += 1
                if t is None:
                    v.append(("lost-update", "tile (%d,%d,%d) missing" % (g["levels"], tx, ty)))
                    continue
                miss = np.isnan(t) & ~np.isnan(cut)
                if miss.any():
                    rows = sorted({int(r) for r in np.argwhere(miss)[:, 0]})
                    v.append(("lost-update", "tile (%d,%d,%d): %d defined mosaic pixels are undefined in the result (rows %s...): the contribution of input(s) %s is lost"
                              % (g["levels"], tx, ty, int(miss.sum()), rows[:4], sorted({(r + ty * 256 - g["gy0"]) % n for r in rows})[:6])))
                elif not np.array_equal(t, cut, equal_nan=True):
                    v.append(("wrong-pixels", "tile (%d,%d,%d) differs from the mosaic" % (g["levels"], tx, ty)))
    else:
        # the combined grid is chosen by reproject: the serial run of the same stage is the reference (the inputs define
        # disjoint pixel sets, so the union does not depend on the order of the updates)
        outs = os.path.join(workdir, "pyr-serial")
        pio_s = PyramidIO(outs, default_format="fits")
        proc_s = MultiWcsProcessor(SimpleFitsCollection(paths))
        proc_s.compute_global_pixelization(Builder(pio_s))
        proc_s.tile(pio_s, _reproject_identity, parallel=1)
        ts = tilegen.list_tiles(outs, "fits")
        if set(tiles) != set(ts):
            v.append(("lost-update", "tile sets differ from the serial run: %s" % sorted(set(tiles) ^ set(ts))[:5]))
        for t in sorted(set(tiles) & set(ts)):
            a, r_ = tilegen.read_tile(out, t, "fits"), tilegen.read_tile(outs, t, "fits")
            nt += 1
            miss = np.isnan(a) & ~np.isnan(r_)
            if miss.any():
                v.append(("lost-update", "tile %s: %d pixels defined by the serial run are undefined" % (t, int(miss.sum()))))
            elif not np.array_equal(a, r_, equal_nan=True):
                v.append(("wrong-pixels", "tile %s differs from the serial run" % (t,)))
        if not ts:
            return dict(status="inconclusive", detail="serial multi-WCS run produced no tiles")
    locks = [f for root, _, fs in os.walk(out) for f in fs if f.endswith(".lock")]
    c = models.log_counters(recs)
    res = dict(counters=dict(stage_histories=1, stage_tiles=nt, stage_workers=c.get("workers", 0), **{"stage_" + spec["kind"]: 1}), nontrivial=c.get("workers", 0) >= 2,
               sample=dict(spec=spec, levels=levels, tiles=len(deepest)))
    if v:
        keys = sorted({k for k, _ in v})
        res.update(status="violation", key="stage:" + "+".join(keys), detail="; ".join(t for _, t in v[:4]), witness_files=dict(eventlog=log))
    return res


def _reproject_identity(input_data, output_projection=None, shape_out=None, return_footprint=False, **kw):
    """stand-in for reproject.reproject_interp on inputs that share the target grid: nearest pixel through the two WCSs"""
    arr, wcs_in = input_data
    yy, xx = np.mgrid[0:shape_out[0], 0:shape_out[1]]
    w = output_projection.pixel_to_world_values(xx, yy)
    px, py = wcs_in.world_to_pixel_values(*w)
    ix, iy = np.rint(px).astype(int), np.rint(py).astype(int)
    ok = (ix >= 0) & (iy >= 0) & (ix < arr.shape[1]) & (iy < arr.shape[0])
    outa = np.full(shape_out, np.nan, np.float64)
    outa[ok] = arr[iy[ok], ix[ok]]
    return (outa, ok.astype(float)) if return_footprint else outa


def run_case(spec, workdir):
    if spec["t"] == "hist":
        return case_hist(spec, workdir)
    if spec["t"] == "stage":
        return case_stage(spec, workdir)
    return case_sampling(spec, workdir)


def finish(agg, tier):
    c = agg["counters"]
    if c.get("overlapping_update_calls", 0) < 20:
        return dict(inconclusive="too little contention observed (%d overlapping update calls)" % c.get("overlapping_update_calls", 0))
    if agg["sets"].get("mode_fmt_layout", 0) < 12:
        return dict(inconclusive="too few mode/format/layout combinations")
    return {}
