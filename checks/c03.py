"""C03: parallel stages hand every work item to exactly one worker and then terminate."""
import collections
import os
import random

import numpy as np

from vlib import evlog, gens, instr_mp, models, tilegen
from vlib import ref_quadtree as rq

PROPERTY = "C03"
REPLAY_REPEATS = 10
LEVEL = "exploration"
JOBS = 12
CASE_TIMEOUT = 180
RULE = (
    "one case = one parallel stage run (visit_leaves on a generated pyramid; u8_to_rgb / f16x3_to_rgb / _do_a_transform on a sparse "
    "npy pyramid; MultiTanProcessor.tile and MultiWcsProcessor.tile on 1-8 generated FITS inputs) with k in 2..32 workers under one "
    "delay profile, plus the serial run of the same stage. Oracle over the event log: every item handed over (get_ret) and processed "
    "(callback / PyramidIO boundary) exactly once, by exactly one worker, set equal to serial mode and to the reference model, no "
    "processing event after the stage returned, every worker exited before return, no stuck state; leaf items carry their own "
    "tile geometry. Non-trivial: >= 2 items and k >= 2; distinct by case spec."
    ' Also: producer stalls, late-check and slow-isset profiles, small (pipe-sized) inputs for the multi-image shutdown window, stateme'
    'nt-boundary delays, a worker SIGKILLed on an item, and os.fork refused for the first or second worker (the stage must report it or'
    ' still do everything).'
    ' Round 8: pyramid objects counted / visited at another depth before their depth attribute is set.'
    " Round 9: stage 'mtan_mem' - in-memory multi-TAN collections of PIL-backed bitmaps and of arrays, serial vs 2-3 workers (every segment's own value must appear in the tiles, which equal the serial tiles)."
)
ASSUMPTIONS = [
    "event-log file order respects happens-before",
    "multi-TAN / multi-WCS updates are attributed to the input most recently received by the same worker pid",
]
PROFS = ["natural", "jitter", "slow_feeder", "slow_workers", "late_start", "burst", "slow_dispatcher", "pct", "late_check", "stall", "slow_isset"]


def cases(tier, seed):
    R = random.Random("c03/%d" % seed)
    out = []
    n = 242 if tier == "quick" else 3630
    stages = ["leaves"] * 5 + ["u8", "f16", "doone", "mtan", "mtan", "mwcs"]
    combos = [(st_, pr_) for st_ in stages for pr_ in PROFS]  # every (stage, profile) pair, in a seeded random order
    R.shuffle(combos)
    for i in range(n):
        st, prof = combos[i % len(combos)]
        par = R.choice([2, 3, 5, 8] if tier == "quick" else [2, 3, 5, 8, 16])
        if prof == "burst":
            par = R.choice([16, 32])
        if prof == "late_check":
            par = R.choice([2, 2, 3])  # an item is lost only if EVERY worker passes through the window
        s = dict(stage=st, profile=prof, par=par, seed=R.randrange(1 << 30))
        s["long_item"] = (i % 4 == 1)
        s["kill_item"] = (st in ("leaves", "doone") and i % 7 == 3)  # the worker processing one item is SIGKILLed (OOM killer, segfault)  # one item whose processing outlasts every (dilated) time-out after the queue has drained
        if st == "leaves":
            s["pyr"] = gens.gen_pyramid(R, maxdepth=4 if tier == "quick" else 5, mindepth=0 if i % 20 == 0 else 1, sub_p=0.35, redepth_p=0.15)
        elif st in ("u8", "f16", "doone"):
            s["depth"] = R.choice([1, 2, 3] if tier == "thorough" else [1, 2, 2, 3])
            s["fill"] = R.choice([0.15, 0.5, 1.0])
            if prof == "burst":
                s["par"] = 16
        else:
            s["n_inputs"] = R.choice([1, 2, 3, 4, 6, 8]) if prof != "stall" else R.choice([6, 8])
            s["fmt_bu"] = R.random() < 0.5
            s["small"] = prof in ("late_check", "slow_feeder", "stall", "slow_dispatcher") and R.random() < 0.7
            if prof == "burst":
                s["par"] = 8
        out.append(s)
    # a healthy stage right after a failed one, in the same process
    for i in range(6 if tier == "quick" else 80):
        out.append(dict(stage="after_failure", profile="stall", par=R.choice([2, 3]), seed=R.randrange(1 << 30), long_item=False, kill_item=False,
                        pyr=gens.gen_pyramid(R, maxdepth=3, mindepth=1, sub_p=0.2)))
    # in-memory collections (PIL-backed bitmaps and arrays) through the multi-TAN stage
    for i in range(6 if tier == "quick" else 60):
        out.append(dict(stage="mtan_mem", kind=["pil", "array", "pil"][i % 3], par=R.choice([2, 3]), profile="natural", seed=R.randrange(1 << 30)))
    # the operating system refuses to start (some of) the workers: the stage must say so or still do everything
    for i in range(12 if tier == "quick" else 150):
        st = ["leaves", "mtan", "u8", "mwcs", "doone", "mtan"][i % 6]
        s = dict(stage=st, profile="natural", par=R.choice([2, 3]), seed=R.randrange(1 << 30), long_item=False, kill_item=False, forkfail=R.choice([0, 0, 1]))
        if st == "leaves":
            s["pyr"] = gens.gen_pyramid(R, maxdepth=3, mindepth=1, sub_p=0.2)
        elif st in ("u8", "doone"):
            s.update(depth=R.choice([1, 2]), fill=1.0)
        else:
            s.update(n_inputs=R.choice([2, 3]), fmt_bu=False, small=(i % 4 == 1))
        out.append(s)
    # the shutdown window of the multi-image stages exists only for inputs that fit into the pipe buffer (the flush of a
    # larger one waits for a reader): small inputs, few workers, workers descheduled right after an empty poll
    for i in range(14 if tier == "quick" else 200):
        out.append(dict(stage=["mtan", "mwcs"][i % 2], profile="late_check", par=R.choice([2, 2, 3]), seed=R.randrange(1 << 30), long_item=False, kill_item=False,
                        n_inputs=R.choice([2, 3, 4, 6]), fmt_bu=R.random() < 0.5, small=True))
    return out


# ------------------------------------------------------------------------------------------------


def _generic_history_checks(recs, v):
    """no processing after return; all workers exited before return"""
    live = set()
    ret = False
    for r in recs:
        k = r["k"]
        if k == "proc_run":
            live.add(r["pid"])
        elif k == "proc_exit":
            live.discard(r["pid"])
        elif k == "stage_ret":
            ret = True
            if live:
                v.append(("worker-alive-at-return", "%d workers not exited when the stage returned" % len(live)))
            opened = {}
            for q in recs:
                if q is r:
                    break
                if q["k"] == "cb_start":
                    opened[tuple(q["pos"])] = opened.get(tuple(q["pos"]), 0) + 1
                elif q["k"] == "cb_end":
                    opened[tuple(q["pos"])] = opened.get(tuple(q["pos"]), 0) - 1
            unfinished = [p for p, n in opened.items() if n > 0]
            if unfinished:
                v.append(("item-unfinished-at-return", "items %s were still being processed when the stage returned" % unfinished[:4]))
        elif ret and k in ("cb_start", "cb_end", "pio_read", "pio_write", "pio_update_call", "pio_update_ret", "get_ret"):
            v.append(("processing-after-return", "%s %s logged after the stage returned" % (k, r.get("pos") or r.get("item"))))
    # hand-off: each put item received at most once... and exactly once when the stage returned
    puts = collections.Counter()
    gets = collections.Counter()
    for r in recs:
        if r["k"] == "put_call" and r.get("role") == "owner":
            puts[str(r.get("item"))] += 1
        elif r["k"] == "put_full" and r.get("role") == "owner":
            pass
        elif r["k"] == "get_ret" and r.get("role") == "worker":
            gets[str(r.get("item"))] += 1
    return puts, gets


def _run(fn, log, par, kind="producer", hostile=None, forkfail=None):
    if par > 1:
        if forkfail is not None:
            # the operating system refuses to create more than `forkfail` worker processes (EAGAIN: ulimit -u, cgroup limit)
            inner = fn

            def fn():
                import errno

                real, n = os.fork, [0]

                def fork():
                    n[0] += 1
                    if n[0] > forkfail:
                        evlog.ev("fork_refused", n=n[0])
                        raise BlockingIOError(errno.EAGAIN, "Resource temporarily unavailable (injected fork failure)")
                    return real()

                os.fork = fork
                inner()

        return models.run_stage(fn, log, kind, watchdog=120, hostile=hostile)
    evlog.ev("stage_call")
    try:
        fn()
        evlog.ev("stage_ret")
        return "returned", {}
    except Exception as e:
        evlog.ev("stage_exc", e=repr(e)[:300])
        return "raised", dict(e=repr(e)[:300])


def _forkfail_reported(spec, outcome, recs):
    """a refused fork that the stage reported to its caller (the only other acceptable outcome is a complete result)"""
    return spec.get("forkfail") is not None and outcome == "raised" and any(r["k"] == "fork_refused" for r in recs)


def _outcome_violation(outcome, info, recs, v):
    if outcome == "stuck":
        v.append(("stage-stuck", "stuck state: %s" % info))
    elif outcome == "raised":
        v.append(("stage-raised", "stage raised %s" % [r.get("e") for r in recs if r["k"] == "stage_exc"]))
    elif outcome == "died":
        v.append(("stage-died", "stage process died %s" % info))


def case_leaves(spec, workdir):
    ps = spec["pyr"]
    depth = ps["depth"]
    apex = tuple(ps["apex"]) if ps.get("apex") else (0, 0, 0)
    acc = gens.resolve_accepted(ps)
    ref = rq.leaves(depth, acc, apex)
    from toasty import toast
    from toasty.pyramid import Pos

    cs = gens.coordsys_of(ps)
    res = {}
    long_pos = None
    kill_pos = sorted(ref)[len(ref) // 2] if (spec.get("kill_item") and len(ref) >= 2) else None
    if spec.get("long_item") and ref:
        # the last leaf in enumeration order is the last one handed out: it is still being processed when the queue is empty
        long_pos = max(ref, key=lambda p: (p[2], p[1])) if random.Random(spec["seed"]).random() < 0.5 else sorted(ref)[-1]
    for tag, par, prof in (("par", spec["par"], spec["profile"]), ("serial", 1, "natural")):
        instr_mp.install(prof, spec["seed"])
        log = os.path.join(workdir, "log-" + tag)
        evlog.open_log(log)
        pyr = gens.build_pyramid(ps)

        def cb(pos, tile):
            p = (int(pos.n), int(pos.x), int(pos.y))
            geo = None
            if tile is not None:
                geo = tuple(tile.pos) == p
                if geo and p[0] >= 1:
                    t2 = toast.create_single_tile(Pos(*p), coordsys=cs)
                    geo = bool(np.allclose(np.array(tile.corners, dtype=float), np.array(t2.corners, dtype=float), atol=1e-12)) and bool(tile.increasing) == bool(t2.increasing)
            evlog.ev("cb_start", pos=p, geo=geo, hastile=tile is not None)
            instr_mp.cb_delay(p)
            if long_pos is not None and p == long_pos and par > 1:
                import time as _time

                _time.sleep(0.6)
            if kill_pos is not None and p == kill_pos and par > 1:
                import signal as _signal

                evlog.ev("worker_killed", pos=p)
                os.kill(os.getpid(), _signal.SIGKILL)
            evlog.ev("cb_end", pos=p)

        outcome, info = _run(lambda: pyr.visit_leaves(cb, parallel=par), log, par, forkfail=spec.get("forkfail") if tag == "par" else None, hostile=(dict(seed=spec["seed"], p=0.03, files=("pyramid.py", "par_util.py", "multi_tan.py", "multi_wcs.py"), lo=0.001, hi=0.06, budget=1.0) if spec["seed"] % 4 == 0 else None))
        recs = evlog.read(log)
        evlog.close_log()
        res[tag] = (outcome, info, recs, log)
    v = []
    outcome, info, recs, log = res["par"]
    if outcome == "watchdog":
        return dict(status="inconclusive", detail="watchdog")
    if kill_pos is not None and any(r["k"] == "worker_killed" for r in recs):
        # an item was never fully processed: the stage must not come back as if everything had been done, and must not hang
        r = _result(spec, [], recs, log, items=len(ref), shape=["leaves-kill", ps["kind"], depth, apex[0], spec["par"], spec["profile"]])
        r["counters"]["worker_kills"] = 1
        if outcome == "returned":
            r.update(status="violation", key="returned-although-a-worker-was-killed", detail="a worker was SIGKILLed while processing leaf %s, yet visit_leaves returned normally" % (kill_pos,), witness_files=dict(eventlog=log))
        elif outcome == "stuck":
            r.update(status="violation", key="stage-stuck-after-worker-kill", detail="stuck after a worker was SIGKILLed: %s" % info, witness_files=dict(eventlog=log))
        return r
    if _forkfail_reported(spec, outcome, recs):
        r = _result(spec, [], recs, log, items=len(ref), shape=["leaves-forkfail", ps["kind"], depth, spec["par"], spec["forkfail"]])
        r["counters"]["fork_failures_reported"] = 1
        return r
    _outcome_violation(outcome, info, recs, v)
    puts, gets = _generic_history_checks(recs, v)
    starts = collections.Counter(tuple(r["pos"]) for r in recs if r["k"] == "cb_start")
    sstarts = collections.Counter(tuple(r["pos"]) for r in res["serial"][2] if r["k"] == "cb_start")
    if outcome == "returned":
        if set(starts) != ref or any(n != 1 for n in starts.values()):
            v.append(("leaf-multiset", "parallel leaf visits: %d distinct, max multiplicity %d; reference %d; diff %s" % (
                len(starts), max(starts.values() or [0]), len(ref), sorted(set(starts) ^ ref)[:6])))
        if starts != sstarts:
            v.append(("serial-parallel-differ", "serial %d vs parallel %d leaf callbacks" % (sum(sstarts.values()), sum(starts.values()))))
        if any(n > 1 for n in gets.values()):
            v.append(("item-received-twice", "items received by more than one get: %s" % [k for k, n in gets.items() if n > 1][:4]))
    if set(sstarts) != ref or any(n != 1 for n in sstarts.values()):
        v.append(("serial:leaf-multiset", "serial leaf visits differ from the reference: %s" % sorted(set(sstarts) ^ ref)[:6]))
    for r in recs + res["serial"][2]:
        if r["k"] == "cb_start":
            if r.get("geo") is False:
                v.append(("leaf-wrong-geometry", "leaf %s delivered with a tile whose pos/corners are not its own" % (r["pos"],)))
            if ps["kind"] != "generic" and depth >= 1 and not r.get("hastile"):
                v.append(("leaf-wrong-geometry", "TOAST leaf %s delivered without tile" % (r["pos"],)))
    return _result(spec, v, recs, log, items=len(ref), shape=["leaves", ps["kind"], depth, apex[0], spec["par"], spec["profile"]])


def _make_npy_pyramid(d, depth, fill, R, mode):
    from toasty.image import Image
    from toasty.pyramid import Pos, PyramidIO

    pio = PyramidIO(d, default_format="npy")
    present = set()
    for p in rq.all_positions(depth):
        if R.random() < fill:
            if mode == "u8":
                arr = np.full((256, 256), (p[0] * 40 + p[1] * 7 + p[2]) % 250 + 1, np.uint8)
            else:
                arr = np.full((256, 256, 3), 0.1 + 0.01 * ((p[1] + p[2]) % 50), np.float16)
            pio.write_image(Pos(*p), Image.from_array(arr), format="npy")
            present.add(p)
    return present


def case_after_failure(spec, workdir):
    """one process, two parallel stages: the first fails (its last leaf raises, late, so that the failure is found at wind-up),
    the caller catches the error and runs a second, healthy stage - whose producer stalls between items.  Nothing of the first
    stage (flags, queues, counters) may reach into the second."""
    ps = spec["pyr"]
    depth = ps["depth"]
    apex = tuple(ps["apex"]) if ps.get("apex") else (0, 0, 0)
    ref = rq.leaves(depth, gens.resolve_accepted(ps), apex)
    if len(ref) < 2:
        return dict(status="held", nontrivial=False, counters=dict(after_failure_skipped=1))
    par = spec["par"]
    order = []
    gens.build_pyramid(ps).visit_leaves(lambda pos, tile: order.append((int(pos.n), int(pos.x), int(pos.y))), parallel=1)
    last = order[-1]  # the leaf that is handed out last: it is still being processed when the stage winds up
    instr_mp.install("stall", spec["seed"])
    log = os.path.join(workdir, "log")
    evlog.open_log(log)

    def fn():
        import time as _t

        def bad(pos, tile):
            if (int(pos.n), int(pos.x), int(pos.y)) == last:
                _t.sleep(0.1)
                raise ValueError("injected failure in the first stage")

        try:
            gens.build_pyramid(ps).visit_leaves(bad, parallel=par)
            evlog.ev("first_stage_returned")
        except RuntimeError:
            evlog.ev("first_stage_failed")
        evlog.ev("second_begin")
        instr_mp._S.pop("stall_%d" % os.getpid(), None)  # the producer of the second stage stalls again (fresh stall schedule)

        def cb(pos, tile):
            p = (int(pos.n), int(pos.x), int(pos.y))
            evlog.ev("cb_start", pos=p)
            evlog.ev("cb_end", pos=p)

        gens.build_pyramid(ps).visit_leaves(cb, parallel=par)

    outcome, info = models.run_stage(fn, log, "producer", watchdog=120)
    recs = evlog.read(log)
    evlog.close_log()
    if outcome == "watchdog":
        return dict(status="inconclusive", detail="watchdog")
    v = []
    if not any(r["k"] == "first_stage_failed" for r in recs):
        return dict(status="inconclusive", detail="the first stage did not fail as arranged (%s)" % outcome)
    starts = collections.Counter(tuple(r["pos"]) for r in recs if r["k"] == "cb_start")
    if outcome != "returned":
        v.append(("second-stage-" + outcome, "after a failed first stage the second stage ended as %s %s" % (outcome, info)))
    elif set(starts) != ref or any(n != 1 for n in starts.values()):
        v.append(("second-stage-leaf-multiset", "after a failed first stage the second stage visited %d of %d leaves (max multiplicity %d)" % (len(starts), len(ref), max(starts.values()) if starts else 0)))
    r = _result(spec, v, recs, log, items=len(ref), shape=["after-failure", ps["kind"], depth, par])
    r["counters"]["stages_after_a_failed_stage"] = 1
    return r


def case_transform(spec, workdir):
    from toasty import transform
    from toasty.pyramid import Pos

    from vlib.pio import LoggingPIO

    R = random.Random(spec["seed"])
    depth = spec["depth"]
    mode = "f16" if spec["stage"] == "f16" else "u8"
    src = os.path.join(workdir, "src")
    present = _make_npy_pyramid(src, depth, spec["fill"], R, mode)
    allp = set(rq.all_positions(depth))
    res = {}
    for tag, par, prof in (("par", spec["par"], spec["profile"]), ("serial", 1, "natural")):
        instr_mp.install(prof, spec["seed"])
        log = os.path.join(workdir, "log-" + tag)
        evlog.open_log(log)
        pin = LoggingPIO(src, default_format="npy")
        pin.tag = "in"
        pout = LoggingPIO(os.path.join(workdir, "out-" + tag), default_format="png" if mode == "f16" else "jpg")
        pout.tag = "out"
        if spec["stage"] == "u8":
            fn = lambda: transform.u8_to_rgb(pin, depth, pio_out=pout, parallel=par)
        elif spec["stage"] == "f16":
            fn = lambda: transform.f16x3_to_rgb(pin, depth, pio_out=pout, parallel=par)
        else:
            def do_one(buf, pos, pio_in, pio_out):
                p = tuple(pos)
                evlog.ev("cb_start", pos=p)
                instr_mp.cb_delay(p)
                evlog.ev("cb_end", pos=p)

            fn = lambda: transform._do_a_transform(pin, depth, lambda: None, do_one, pio_out=pout, parallel=par)
        outcome, info = _run(fn, log, par, forkfail=spec.get("forkfail") if tag == "par" else None, hostile=(dict(seed=spec["seed"], p=0.03, files=("pyramid.py", "par_util.py", "multi_tan.py", "multi_wcs.py"), lo=0.001, hi=0.06, budget=1.0) if spec["seed"] % 4 == 0 else None))
        recs = evlog.read(log)
        evlog.close_log()
        res[tag] = (outcome, info, recs, log)
    v = []
    outcome, info, recs, log = res["par"]
    if outcome == "watchdog":
        return dict(status="inconclusive", detail="watchdog")
    if _forkfail_reported(spec, outcome, recs):
        r = _result(spec, [], recs, log, items=0, shape=[spec["stage"] + "-forkfail", spec["par"], spec["forkfail"]])
        r["counters"]["fork_failures_reported"] = 1
        return r
    _outcome_violation(outcome, info, recs, v)
    puts, gets = _generic_history_checks(recs, v)

    def hist(rs):
        if spec["stage"] == "doone":
            return collections.Counter(("do", tuple(r["pos"])) for r in rs if r["k"] == "cb_start")
        return collections.Counter((r["k"], r.get("tag"), tuple(r["pos"])) for r in rs if r["k"] in ("pio_read", "pio_write"))

    hp, hs = hist(recs), hist(res["serial"][2])
    if spec["stage"] == "doone":
        exp = collections.Counter(("do", p) for p in allp)
    else:
        exp = collections.Counter([("pio_read", "in", p) for p in allp] + [("pio_write", "out", p) for p in present])
    if outcome == "returned" and hp != exp:
        d = (hp - exp) + (exp - hp)
        v.append(("item-multiset", "parallel transform history differs from the reference: %s" % list(d.items())[:5]))
    if hs != exp:
        d = (hs - exp) + (exp - hs)
        v.append(("serial:item-multiset", "serial transform history differs from the reference: %s" % list(d.items())[:5]))
    if outcome == "returned" and spec["stage"] != "doone":
        ext = "png" if mode == "f16" else "jpg"
        for tag in ("par", "serial"):
            got = set()
            for root, _, files in os.walk(os.path.join(workdir, "out-" + tag)):
                for f in files:
                    if f.endswith("." + ext):
                        n = int(os.path.basename(os.path.dirname(root)))
                        y, x = f[: -len(ext) - 1].split("_")
                        got.add((n, int(x), int(y)))
            if got != present:
                v.append(("output-files", "%s output tiles differ from inputs: %s" % (tag, sorted(got ^ present)[:5])))
    return _result(spec, v, recs, log, items=len(allp), shape=[spec["stage"], depth, spec["fill"], spec["par"], spec["profile"]])


def case_multi(spec, workdir):
    from toasty.builder import Builder
    from toasty.collection import SimpleFitsCollection
    from toasty.multi_tan import MultiTanProcessor
    from toasty.multi_wcs import MultiWcsProcessor

    from vlib import fitsgen, ref_study
    from vlib.pio import LoggingPIO

    R = random.Random(spec["seed"])
    n = spec["n_inputs"]
    small = bool(spec.get("small"))  # inputs whose pickled form fits into the pipe buffer: the flush does not wait for a reader
    W, H = (R.randrange(300, 900), R.randrange(300, 700)) if not small else (R.randrange(260, 420), R.randrange(260, 420))
    rects = []
    for i in range(n):
        w, h = (R.randrange(120, min(420, W)), R.randrange(120, min(420, H))) if not small else (R.randrange(24, 70), R.randrange(24, 70))
        rects.append((R.randrange(0, W - w + 1), R.randrange(0, H - h + 1), w, h))
    # make sure the union spans the mosaic corners so that the global size is W x H
    rects[0] = (0, 0, rects[0][2], rects[0][3])
    rects.append((W - 130, H - 125, 130, 125) if not small else (W - 40, H - 36, 40, 36))
    npr = np.random.default_rng(spec["seed"])
    mosaic = npr.normal(size=(H, W)).astype(np.float32)
    ind = os.path.join(workdir, "in")
    os.makedirs(ind)
    paths = []
    for i, r in enumerate(rects):
        m = mosaic.copy()
        m[:] = i + 1  # constant marker per input
        paths.append(fitsgen.write_piece(os.path.join(ind, "p%d.fits" % i), m, r, (W / 2.0, H / 2.0), bottoms_up=spec["fmt_bu"]))
    g = ref_study.geometry(W, H)
    exp = collections.Counter()
    for i, (x0, y0, w, h) in enumerate(rects):
        for t in ref_study.tiles_for_rect(g["gx0"] + x0, g["gy0"] + y0, w, h):
            exp[("p%d.fits" % i, (g["levels"], t[0], t[1]))] += 1
    res = {}
    for tag, par, prof in (("par", spec["par"], spec["profile"]), ("serial", 1, "natural")):
        instr_mp.install(prof, spec["seed"])
        log = os.path.join(workdir, "log-" + tag)
        evlog.open_log(log)
        pio = LoggingPIO(os.path.join(workdir, "out-" + tag), default_format="fits")
        b = Builder(pio)
        coll = SimpleFitsCollection(paths)
        if spec["stage"] == "mtan":
            proc = MultiTanProcessor(coll)
            proc.compute_global_pixelization(b)
            fn = lambda: proc.tile(pio, parallel=par)
        else:
            proc = MultiWcsProcessor(coll)
            proc.compute_global_pixelization(b)

            def rf(inp, output_projection=None, shape_out=None, return_footprint=False, **kw):
                val = float(np.asarray(inp[0]).flat[0])
                evlog.ev("cb_start", pos=[0, 0, int(val)])
                evlog.ev("cb_end", pos=[0, 0, int(val)])
                return np.full(shape_out, val)

            fn = lambda: proc.tile(pio, rf, parallel=par)
        outcome, info = _run(fn, log, par, forkfail=spec.get("forkfail") if tag == "par" else None, hostile=(dict(seed=spec["seed"], p=0.03, files=("pyramid.py", "par_util.py", "multi_tan.py", "multi_wcs.py"), lo=0.001, hi=0.06, budget=1.0) if spec["seed"] % 4 == 0 else None))
        recs = evlog.read(log)
        evlog.close_log()
        res[tag] = (outcome, info, recs, log, proc)
    v = []
    outcome, info, recs, log, proc = res["par"]
    if outcome == "watchdog":
        return dict(status="inconclusive", detail="watchdog")
    if _forkfail_reported(spec, outcome, recs):
        r = _result(spec, [], recs, log, items=len(rects), shape=[spec["stage"] + "-forkfail", spec["par"], spec["forkfail"]])
        r["counters"]["fork_failures_reported"] = 1
        return r
    _outcome_violation(outcome, info, recs, v)
    puts, gets = _generic_history_checks(recs, v)
    names = ["p%d.fits" % i for i in range(len(rects))]
    if outcome == "returned":
        gc = collections.Counter(gets)
        if sorted(gc.elements()) != sorted(names):
            v.append(("input-handoff", "inputs received by workers %s, expected each of %d once" % (dict(gc), len(names))))
        # attribute updates to the input last received by the same pid
        cur = {}
        upd = collections.Counter()
        for r in recs:
            if r["k"] == "get_ret" and r.get("role") == "worker":
                cur[r["pid"]] = r["item"]
            elif r["k"] == "pio_update_call":
                upd[(cur.get(r["pid"]), tuple(r["pos"]))] += 1
        if spec["stage"] == "mtan" and upd != exp:
            d = (upd - exp) + (exp - upd)
            v.append(("update-multiset", "(input, tile) updates differ from the reference: %s" % list(d.items())[:5]))
        if spec["stage"] == "mwcs":
            # the combined grid is chosen by reproject; compare with the serial run's multiset of updated tiles instead
            sp = collections.Counter(tuple(r["pos"]) for r in res["serial"][2] if r["k"] == "pio_update_call")
            pp = collections.Counter(tuple(r["pos"]) for r in recs if r["k"] == "pio_update_call")
            if sp != pp:
                v.append(("update-multiset", "multi-WCS tile updates differ between serial and parallel: %s" % list(((sp - pp) + (pp - sp)).items())[:5]))
            if any(n != 1 for n in collections.Counter((k, n_) for (k, n_) in upd).values()):
                v.append(("update-multiset", "an (input, tile) pair was updated more than once"))
        # final tiles: every pixel holds the marker of an input covering it (exactly the marker where one input covers
        # it; order decides among disagreeing overlapping inputs, which the property leaves open), undefined elsewhere
        if spec["stage"] == "mtan":
            diff = _check_cover(os.path.join(workdir, "out-par"), rects, g)
        else:
            diff = _compare_fits_dirs(os.path.join(workdir, "out-par"), os.path.join(workdir, "out-serial"), len(rects))
        if diff:
            v.append(("output-content", diff))
    if spec["stage"] == "mtan":
        supd = collections.Counter(tuple(r["pos"]) for r in res["serial"][2] if r["k"] == "pio_update_call")
        sexp = collections.Counter()
        for (nm, p), c in exp.items():
            sexp[p] += c
        if supd != sexp:
            v.append(("serial:update-multiset", "serial updates differ from the reference"))
    locks = [f for root, _, fs in os.walk(os.path.join(workdir, "out-par")) for f in fs if f.endswith(".lock")]
    if outcome == "returned" and locks:
        v.append(("lockfiles-left", "%d lock files remain" % len(locks)))
    return _result(spec, v, recs, log, items=len(rects), shape=[spec["stage"], len(rects), spec["fmt_bu"], spec["par"], spec["profile"]])


def _check_cover(d, rects, g):
    from astropy.io import fits

    P = g["p2n"]
    count = np.zeros((P, P), np.int16)
    for (x0, y0, w, h) in rects:
        count[g["gy0"] + y0:g["gy0"] + y0 + h, g["gx0"] + x0:g["gx0"] + x0 + w] += 1
    seen = set()
    for root, _, fs in os.walk(d):
        for f in fs:
            if not f.endswith(".fits"):
                continue
            n = int(os.path.basename(os.path.dirname(root)))
            ty, tx = [int(t) for t in f[:-5].split("_")]
            if n != g["levels"]:
                return "tile at level %d, expected only level %d" % (n, g["levels"])
            seen.add((tx, ty))
            data = fits.getdata(os.path.join(root, f))[::-1]
            cnt = count[ty * 256:(ty + 1) * 256, tx * 256:(tx + 1) * 256]
            if np.any(np.isnan(data) != (cnt == 0)):
                return "tile %s: %d pixels defined/undefined contrary to the inputs' coverage" % (f, int(np.sum(np.isnan(data) != (cnt == 0))))
            ok = cnt == 0
            for i, (x0, y0, w, h) in enumerate(rects):
                m = np.zeros((256, 256), bool)
                ys, xs = g["gy0"] + y0 - ty * 256, g["gx0"] + x0 - tx * 256
                m[max(ys, 0):max(min(ys + h, 256), 0), max(xs, 0):max(min(xs + w, 256), 0)] = True
                ok |= m & (data == i + 1)
            if not ok.all():
                return "tile %s: %d pixels hold a value that is not the marker of any covering input" % (f, int((~ok).sum()))
    exp = {(x, y) for y in range(P // 256) for x in range(P // 256) if count[y * 256:(y + 1) * 256, x * 256:(x + 1) * 256].any()}
    if seen != exp:
        return "tile set differs from coverage: %s" % sorted(seen ^ exp)[:5]
    return None


def _compare_fits_dirs(a, b, nmark):
    from astropy.io import fits

    def listing(d):
        out = {}
        for root, _, fs in os.walk(d):
            for f in fs:
                if f.endswith(".fits"):
                    out[os.path.relpath(os.path.join(root, f), d)] = os.path.join(root, f)
        return out

    la, lb = listing(a), listing(b)
    if set(la) != set(lb):
        return "tile sets differ: %s" % sorted(set(la) ^ set(lb))[:5]
    for k in la:
        x, y = fits.getdata(la[k]), fits.getdata(lb[k])
        if x.shape != y.shape or np.any(np.isnan(x) != np.isnan(y)):
            return "tile %s: defined-pixel mask differs from the serial result" % k
        d = ~((x == y) | np.isnan(x))
        if np.any(d) and not (np.isin(x[d], np.arange(1, nmark + 1)).all()):
            return "tile %s differs from the serial result by values that are no input marker" % k
    return None


def _result(spec, v, recs, log, items, shape):
    lc = models.log_counters(recs)
    counters = collections.Counter()
    counters["runs_stage_" + spec["stage"]] += 1
    counters["runs_%s_%s" % (spec["stage"], spec["profile"])] += 1
    counters["runs_profile_" + spec["profile"]] += 1
    counters["runs_k%d" % spec["par"]] += 1
    for k in ("events", "worker_timeouts", "timeouts_while_pending", "timeouts_before_event_set", "timeouts_after_event_set", "owner_puts_delayed_gt5ms", "put_full", "statement_delays"):
        counters["log_" + k] = lc.get(k, 0)
    counters["max_concurrent_callbacks"] = lc.get("max_concurrent_callbacks", 0)
    counters["items_checked"] += items
    res = dict(counters=dict(counters), nontrivial=items >= 2 and spec["par"] >= 2,
               sets=dict(interleaving_signatures=[models.signature(recs, kinds=("cb_start", "get_ret", "get_empty", "put_ret", "pio_update_call", "pio_write", "event_set"))], shape=[shape]),
               sample=dict(spec=_brief(spec), items=items,
                           log_excerpt=[{k: r.get(k) for k in ("k", "pid", "role", "q", "pos", "item") if r.get(k) is not None} for r in recs[:12]]))
    if v:
        keys = sorted({k for k, _ in v})
        res.update(status="violation", key=keys[0] if len(keys) == 1 else "+".join(keys)[:120], detail="; ".join(t for _, t in v[:6]), witness_files=dict(eventlog=log))
    else:
        res["status"] = "held"
    return res


def _brief(spec):
    s = dict(spec)
    if "pyr" in s:
        s["pyr"] = {k: v for k, v in s["pyr"].items() if k != "accepted"}
    return s


def case_mtan_mem(spec, workdir):
    """multi-TAN tiling of an IN-MEMORY collection (bitmap images backed by PIL objects, or arrays) on a common grid, serial vs
    2-3 workers: every segment (its own constant value) is processed exactly once - it shows up in the tiles, which equal the
    serial tiles"""
    from astropy.wcs import WCS
    from toasty import builder, collection, multi_tan, pyramid
    from toasty.image import Image, ImageDescription, ImageMode

    R = random.Random(spec["seed"])
    kind = spec["kind"]
    SEG = 256
    grid = [(c, r) for r in range(R.choice([1, 2])) for c in range(R.choice([2, 3]))]

    def seg_wcs(col, row):
        w = WCS(naxis=2)
        w.wcs.ctype = ["RA---TAN", "DEC--TAN"]
        w.wcs.crval = [30.0, 10.0]
        w.wcs.cdelt = [-1e-3, -1e-3]
        w.wcs.crpix = [400.5 - col * SEG, 300.5 - row * SEG]
        return w

    shape = (SEG, SEG, 3) if kind == "pil" else (SEG, SEG)

    class Mem(collection.ImageCollection):
        def descriptions(self):
            for i, (c, r) in enumerate(grid):
                d = ImageDescription(mode=ImageMode.RGB if kind == "pil" else ImageMode.F32, shape=shape, wcs=seg_wcs(c, r))
                d.collection_id = "seg%d" % i
                yield d

        def images(self):
            for i, (c, r) in enumerate(grid):
                if kind == "pil":
                    img = Image.from_pil(Image.from_array(np.full(shape, 30 * (i + 1), np.uint8)).aspil(), wcs=seg_wcs(c, r), default_format="png")
                else:
                    img = Image.from_array(np.full(shape, float(30 * (i + 1)), np.float32), wcs=seg_wcs(c, r), default_format="npy")
                img.collection_id = "seg%d" % i
                yield img

    fmt = "png" if kind == "pil" else "npy"

    def run(par, out):
        pio = pyramid.PyramidIO(out, default_format=fmt)
        proc = multi_tan.MultiTanProcessor(Mem())
        proc.compute_global_pixelization(builder.Builder(pio))
        proc.tile(pio, parallel=par, cli_progress=False)
        return {p: tilegen.read_tile(out, p, fmt) for p in tilegen.list_tiles(out, fmt)}

    ser = run(1, os.path.join(workdir, "serial"))
    par = run(spec["par"], os.path.join(workdir, "par"))
    probs = []

    def seen(tiles):
        out = set()
        for a in tiles.values():
            a = a[..., 0] if a.ndim == 3 else a
            out |= {int(v) // 30 - 1 for v in np.unique(a[np.isfinite(a)]) if v > 0 and int(v) % 30 == 0}
        return out

    want = set(range(len(grid)))
    if seen(ser) != want:
        probs.append("serial run: segments present in the tiles %s, collection has %s" % (sorted(seen(ser)), sorted(want)))
    if seen(par) != want:
        probs.append("%d workers: segments %s were never processed (present: %s) although tile() returned normally" % (spec["par"], sorted(want - seen(par)), sorted(seen(par))))
    if set(ser) != set(par):
        probs.append("tile sets differ between serial and %d workers: %s" % (spec["par"], sorted(set(ser) ^ set(par))[:6]))
    for p in sorted(set(ser) & set(par)):
        if not np.array_equal(ser[p], par[p], equal_nan=ser[p].dtype.kind == "f"):
            probs.append("tile %s differs between serial and %d workers" % (p, spec["par"]))
            break
    r = dict(counters=dict(runs_stage_mtan_mem=1, items_checked=len(grid), **{"mem_collection_" + kind: 1}), nontrivial=len(grid) >= 2, sample=dict(spec=spec, segments=len(grid)))
    if probs:
        r.update(status="violation", key="input-handoff:in-memory-collection", detail="; ".join(probs[:4]))
    return r


def run_case(spec, workdir):
    if spec["stage"] == "mtan_mem":
        return case_mtan_mem(spec, workdir)
    if spec["stage"] == "after_failure":
        return case_after_failure(spec, workdir)
    if spec["stage"] == "leaves":
        return case_leaves(spec, workdir)
    if spec["stage"] in ("u8", "f16", "doone"):
        return case_transform(spec, workdir)
    return case_multi(spec, workdir)


def finish(agg, tier):
    c = agg["counters"]
    miss = [s for s in ("leaves", "u8", "f16", "doone", "mtan", "mwcs") if c.get("runs_stage_" + s, 0) < 3]
    miss += [p for p in PROFS if c.get("runs_profile_" + p, 0) < 1]
    for st_ in ("leaves", "u8", "doone", "mtan", "mwcs"):
        for pr_ in ("slow_feeder", "slow_workers", "late_start", "late_check", "stall"):
            if c.get("runs_%s_%s" % (st_, pr_), 0) < 1:
                miss.append("%s under %s" % (st_, pr_))
    if c.get("log_timeouts_before_event_set", 0) < 1:
        miss.append("worker time-outs before the shutdown signal")
    if c.get("log_timeouts_after_event_set", 0) < 1:
        miss.append("worker time-outs after the shutdown signal")
    if c.get("log_owner_puts_delayed_gt5ms", 0) < 1:
        miss.append("producer observed blocked on a full queue")
    if miss:
        return dict(inconclusive="deciding monitors not reached: %s" % miss)
    return dict(coverage=dict(interleaving_signatures=agg["sets"].get("interleaving_signatures", 0)))
