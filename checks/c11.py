"""C11: plate-carree samplers return the source pixel containing each sky point."""
import math
import random

import numpy as np

PROPERTY = "C11"
LEVEL = "exploration"
OPTIMIZED_SAMPLE = (6, 30)  # cases repeated under python -O (quick, thorough)
JOBS = 16
CASE_TIMEOUT = 600
TWOPI = 2 * math.pi
RULE = (
    "one case = one sampler variant x a set of map shapes (incl. 1-pixel axes, odd sizes) x colour axes {none,3,4}. The map is an identity "
    "map (value = cell index), so the output names the cell that was read. Inputs: random lon in +-8pi / lat in [-pi/2,pi/2], exact poles, "
    "exact cell boundaries and centres, 0, +-pi, 2pi, denormals, and real TOAST pixel grids. Oracle: the cell is the documented one "
    "(lat +90 on row 0; sky: lon increasing to the left, 0 at the centre or right edge; planet: increasing to the right, 0 at the centre or "
    "left edge; Galactic after the ICRS->Galactic rotation computed with astropy SkyCoord), either adjacent cell within 1e-9 cell of a "
    "boundary; f(lon+2pi*k) names an acceptable cell of (lon); output shape = request shape + colour axes. The ecliptic variant is checked "
    "for row, periodicity, shape and range only (its column layout is not stated). Non-trivial: a (variant, shape, colour) "
    "combination with >= 100 points; distinct by that combination."
    ' Also: samplers of the other layouts built (and one used) between building and using the sampler under test; Fortran-contiguous, s'
    'trided and double-flipped maps; the same sampler called from four threads.'
    " Round 8: 'huge' cases - sparse disk-backed maps of 2.6-3.7 Gpixel whose marked cells are read back at their centres (flat indices beyond 2^31)."
    " Round 9: big-endian caller-owned maps shared by several sampler factories; the caller's map must be unchanged afterwards."
)
ASSUMPTIONS = ["astropy SkyCoord is the oracle for the Galactic/ecliptic rotations", "float64 evaluation of the documented layout with an either-adjacent-cell tolerance of 1e-9 cell (1e-7 after a rotation)"]
VARIANTS = ["plate_carree_sampler", "plate_carree_zeroright_sampler", "plate_carree_planet_sampler", "plate_carree_planet_zeroleft_sampler", "plate_carree_galactic_sampler", "plate_carree_ecliptic_sampler"]
SIZES = [1, 2, 3, 5, 8, 16, 17, 33, 64, 128, 360]


def cases(tier, seed):
    R = random.Random("c11/%d" % seed)
    out = []
    for v in VARIANTS:
        shapes = [(ny, nx) for ny in SIZES for nx in SIZES]
        R.shuffle(shapes)
        per = 11 if tier == "quick" else 4
        for i in range(0, len(shapes), per):
            out.append(dict(variant=v, shapes=shapes[i:i + per] + [(R.randrange(1, 700), R.randrange(1, 1400))], colour=R.choice([0, 0, 3, 4]),
                            npts=300 if tier == "quick" else 60000, seed=R.randrange(1 << 30), toast=(i % 3 == 0)))
    # maps with more than 2**31 pixels (a 72000 x 36000 all-sky mosaic; disk-backed and sparse here)
    for v in VARIANTS[:4]:
        for i in range(1 if tier == "quick" else 6):
            out.append(dict(variant=v, huge=[36000, 72000] if i % 2 == 0 else [R.randrange(33000, 47000), R.randrange(66000, 80000)], seed=R.randrange(1 << 30), npts=400))
    return out


def u_of(variant, lon, nx):
    """fractional column coordinate (0..nx) under the documented layout"""
    if variant in ("plate_carree_sampler", "plate_carree_galactic_sampler"):
        ln = np.remainder(lon + math.pi, TWOPI) - math.pi  # (-pi, pi]... [-pi, pi)
        return (math.pi - ln) / TWOPI * nx
    if variant == "plate_carree_zeroright_sampler":
        return (TWOPI - np.remainder(lon, TWOPI)) / TWOPI * nx
    if variant == "plate_carree_planet_sampler":
        ln = np.remainder(lon + math.pi, TWOPI) - math.pi
        return (ln + math.pi) / TWOPI * nx
    if variant == "plate_carree_planet_zeroleft_sampler":
        return np.remainder(lon, TWOPI) / TWOPI * nx
    raise ValueError(variant)


def acceptable(coord, n, tol, wrap):
    """boolean (n_points, 3) candidates: returns (lo, hi) inclusive range of acceptable integer cells, and seam flag"""
    f = np.floor(coord)
    lo = np.where(coord - f < tol, f - 1, f)
    hi = np.where(f + 1 - coord < tol, f + 1, f)
    return lo, hi


def check_cells(variant, lon, lat, got_ix, got_iy, nx, ny, tol, probs, what, check_cols=True, polar_exempt=False):
    v = (math.pi / 2 - lat) / math.pi * ny
    lo, hi = acceptable(v, ny, tol * ny, False)
    lo = np.clip(lo, 0, ny - 1)
    hi = np.clip(hi, 0, ny - 1)
    bad = (got_iy < lo) | (got_iy > hi)
    if bad.any():
        j = np.argwhere(bad)[0][0]
        probs.append("%s map %dx%d: (lon=%.17g, lat=%.17g) read row %d, documented row %d (v=%.12g)" % (what, ny, nx, lon.flat[j], lat.flat[j], got_iy.flat[j], int(np.floor(v.flat[j])), v.flat[j]))
    if not check_cols:
        return int(bad.sum())
    u = u_of(variant, lon, nx)
    lo, hi = acceptable(u, nx, tol * nx, True)
    ok = (got_ix >= lo) & (got_ix <= hi)
    # seam: u within tol of 0 or nx: both edge columns acceptable
    seam = (u < tol * nx) | (nx - u < tol * nx)
    ok |= seam & ((got_ix == 0) | (got_ix == nx - 1))
    ok |= (got_ix == np.clip(lo, 0, nx - 1)) & (lo >= nx)  # u == nx exactly -> wraps to column 0 handled by seam; keep clip case
    if polar_exempt:
        # after a frame rotation the longitude of a point within 1e-5 rad of the frame's pole is numerically undetermined
        # (rounding of order 1e-16 / distance): only the row is demanded there
        ok |= np.abs(lat) > math.pi / 2 - 1e-5
    bad2 = ~ok
    if bad2.any():
        j = np.argwhere(bad2)[0][0]
        probs.append("%s map %dx%d: (lon=%.17g, lat=%.17g) read column %d, documented column %d (u=%.12g)" % (what, ny, nx, lon.flat[j], lat.flat[j], got_ix.flat[j], int(np.floor(u.flat[j])) % nx, u.flat[j]))
    return int(bad.sum() + bad2.sum())


def gen_inputs(R, rng, n, ny, nx, toast):
    lon = rng.uniform(-8 * math.pi, 8 * math.pi, n)
    lat = np.arcsin(rng.uniform(-1, 1, n))
    k = n // 10
    # structure: poles, boundaries, centres, special longitudes, denormals
    lat[:k] = rng.choice([math.pi / 2, -math.pi / 2, 0.0, 5e-324, -5e-324, 1e-300], k)
    lon[k:2 * k] = rng.choice([0.0, math.pi, -math.pi, TWOPI, -TWOPI, math.pi / 2, 5e-324, -5e-324, 3 * math.pi, 4 * math.pi], k)
    cx = rng.integers(0, nx + 1, k)
    lon[2 * k:3 * k] = (cx / nx) * TWOPI - math.pi + rng.choice([0.0, TWOPI, -TWOPI], k)  # exact cell boundaries (centre-zero layouts)
    cy = rng.integers(0, ny + 1, k)
    lat[3 * k:4 * k] = math.pi / 2 - (cy / ny) * math.pi
    lon[4 * k:5 * k] = ((rng.integers(0, nx, k) + 0.5) / nx) * TWOPI  # cell centres (edge-zero layouts)
    lon[5 * k:6 * k] = (rng.integers(0, nx + 1, k) / nx) * TWOPI  # cell boundaries (edge-zero layouts)
    lat = np.clip(lat, -math.pi / 2, math.pi / 2)
    shape = R.choice([(n,), (1, n), (n, 1)]) if False else None
    # 2-D request shape
    a = R.choice([1, 2, 3, 4, 6])
    m = (n // a) * a
    lon, lat = lon[:m].reshape(a, m // a), lat[:m].reshape(a, m // a)
    return lon, lat


def case_huge(spec, workdir):
    """a map too large for 32-bit flat indices: marked cells of a sparse disk-backed map are read back at their centres"""
    import os

    from toasty import samplers

    variant = spec["variant"]
    ny, nx = spec["huge"]
    R = random.Random(spec["seed"])
    m = np.lib.format.open_memmap(os.path.join(workdir, "huge.npy"), mode="w+", dtype=np.uint8, shape=(ny, nx))
    n = spec["npts"]
    iy = np.array([R.choice([0, ny - 1, (1 << 31) // nx, (1 << 31) // nx + 1, (1 << 32) // nx if (1 << 32) // nx < ny else ny - 2, R.randrange(ny), R.randrange(ny * 2 // 3, ny)]) for _ in range(n)])
    ix = np.array([R.choice([0, nx - 1, R.randrange(nx), R.randrange(nx)]) for _ in range(n)])
    _, first = np.unique(iy.astype(np.int64) * nx + ix, return_index=True)
    iy, ix = iy[np.sort(first)], ix[np.sort(first)]
    marks = (1 + np.arange(len(iy)) % 250).astype(np.uint8)
    m[iy, ix] = marks
    lat = math.pi / 2 - math.pi * (iy + 0.5) / ny
    f = (ix + 0.5) / nx
    lon = {"plate_carree_sampler": math.pi - TWOPI * f, "plate_carree_zeroright_sampler": TWOPI - TWOPI * f,
           "plate_carree_planet_sampler": TWOPI * f - math.pi, "plate_carree_planet_zeroleft_sampler": TWOPI * f}[variant]
    assert (np.floor(u_of(variant, lon, nx)) == ix).all()
    lon = lon + TWOPI * np.array([R.choice([0, 0, 1, -1, 3]) for _ in range(len(ix))])
    got = np.asarray(getattr(samplers, variant)(m)(lon.reshape(-1, 1), lat.reshape(-1, 1))).reshape(-1)
    bad = got != marks
    r = dict(counters=dict(points=int(len(ix)), huge_maps=1, huge_points_beyond_2_31=int(((iy.astype(np.int64) * nx + ix) >= (1 << 31)).sum())), nontrivial=True,
             sample=dict(spec=spec), sets=dict(shapes=[[ny, nx]]))
    del m
    if bad.any():
        j = int(np.argwhere(bad)[0][0])
        r.update(status="violation", key="wrong-cell:" + variant, detail="%s on a %dx%d map (%.2f Gpixel): %d of %d marked cells not read back at their centres; first: cell (row %d, col %d) marked %d, the sampler returned %d for (lon=%.17g, lat=%.17g)" % (
            variant, ny, nx, ny * nx / 1e9, int(bad.sum()), len(ix), iy[j], ix[j], marks[j], got[j], lon[j], lat[j]))
    return r


def run_case(spec, workdir):
    if spec.get("huge"):
        return case_huge(spec, workdir)
    from toasty import samplers, toast

    variant = spec["variant"]
    fn = getattr(samplers, variant)
    R = random.Random(spec["seed"])
    rng = np.random.default_rng(spec["seed"])
    probs = []
    npts = 0
    combos = []
    rotated = variant in ("plate_carree_galactic_sampler", "plate_carree_ecliptic_sampler")
    tol = 1e-7 if rotated else 1e-9
    grids = []
    if spec.get("toast"):
        for t in list(toast.generate_tiles(2, bottom_only=False))[:: 5]:
            lo, la = toast.toast_tile_get_coords(t)
            grids.append((lo[::4, ::4], la[::4, ::4]))
    for si, (ny, nx) in enumerate(spec["shapes"]):
        C = spec["colour"]
        ident = np.arange(ny * nx, dtype=np.int64).reshape(ny, nx)
        if C:
            data = ident[..., None] * 8 + np.arange(C)
        else:
            data = ident
        # memory layout of the map: C-contiguous, Fortran-contiguous (a transposed [lon, lat] grid), a strided window, flipped views
        lay = ["C", "F", "strided", "bigendian", "flip2", "C", "bigendian"][(si + spec["seed"]) % 7]
        if lay == "F":
            data = np.asfortranarray(data)
        elif lay == "strided":
            big = np.zeros((2 * ny, 2 * nx) + data.shape[2:], data.dtype)
            big[::2, ::2] = data
            data = big[::2, ::2]
        elif lay == "flip2":
            data = np.ascontiguousarray(data[::-1, ::-1])[::-1, ::-1]
        elif lay == "bigendian":
            # a map as it comes out of a FITS file: non-native byte order, writable, owned by the caller
            data = data.astype(data.dtype.newbyteorder(">"))
        map_before, dtype_before = np.array(data, dtype=np.int64), data.dtype
        f = fn(data)
        if si % 2 == 0 or lay == "bigendian":
            # samplers of the OTHER layouts for a map of the same shape are built (and one of them used) after this one and
            # before it is used: a sampler must not depend on what else exists in the process
            others = [getattr(samplers, v)(data) for v in VARIANTS if v != variant]
            R.choice(others)(np.zeros((1, 2)), np.zeros((1, 2)))
        inputs = [gen_inputs(R, rng, spec["npts"], ny, nx, False)] + grids
        if rotated:
            # points at and within 1e-12 .. 1e-6 rad of the poles of the ROTATED frame (where |z| of the rotated unit vector
            # reaches 1), and on its longitude seam, expressed in ICRS
            from astropy import units as u_
            from astropy.coordinates import SkyCoord as SC_

            fr = "galactic" if variant == "plate_carree_galactic_sampler" else "barycentrictrueecliptic"
            offs = np.array([0.0, 1e-12, 1e-9, 2e-8, 1e-7, 1e-6, 1e-3])
            pl_lon = np.tile(np.linspace(0, TWOPI, 9)[:-1], len(offs))
            pl_lat = np.repeat(math.pi / 2 - offs, 8)
            both_lat = np.concatenate([pl_lat, -pl_lat, rng.uniform(-1.5, 1.5, 16)])
            both_lon = np.concatenate([pl_lon, pl_lon, np.repeat([0.0, math.pi], 8) + rng.choice([0.0, 1e-12, -1e-12], 16)])
            sc_ = SC_(both_lon * u_.rad, both_lat * u_.rad, frame=fr).icrs
            k_ = (len(both_lon) // 4) * 4
            inputs.append((np.array(sc_.ra.rad)[:k_].reshape(4, -1), np.array(sc_.dec.rad)[:k_].reshape(4, -1)))
        if si == 1:
            # one BIG two-dimensional request (a whole map resampled in one call)
            bl, bb = rng.uniform(-math.pi, 3 * math.pi, (700, 420)), np.arcsin(rng.uniform(-1, 1, (700, 420)))
            inputs.append((bl, bb))
        if data.dtype != dtype_before or not np.array_equal(np.array(data, dtype=np.int64), map_before):
            probs.append("%s map %dx%d (%s layout): building samplers changed the caller's map (dtype %s -> %s)" % (variant, ny, nx, lay, dtype_before, data.dtype))
        for (lon, lat) in inputs:
            out = np.asarray(f(lon, lat))
            npts += lon.size
            exp_shape = lon.shape + ((C,) if C else ())
            if out.shape != exp_shape:
                probs.append("%s map %dx%d: output shape %s for request %s" % (variant, ny, nx, out.shape, lon.shape))
                continue
            if C:
                if not np.array_equal(out % 8, np.broadcast_to(np.arange(C), out.shape)) or not (out[..., 0:1] // 8 == out // 8).all():
                    probs.append("%s map %dx%d: colour axis scrambled" % (variant, ny, nx))
                    continue
                cell = out[..., 0] // 8
            else:
                cell = out
            if cell.min() < 0 or cell.max() >= ny * nx:
                probs.append("%s map %dx%d: value outside the map" % (variant, ny, nx))
                continue
            giy, gix = cell // nx, cell % nx
            l2, b2 = lon, lat
            if rotated:
                from astropy import units as u
                from astropy.coordinates import SkyCoord

                sc = SkyCoord(lon * u.rad, lat * u.rad, frame="icrs")
                if variant == "plate_carree_galactic_sampler":
                    g = sc.galactic
                    l2, b2 = g.l.rad, g.b.rad
                else:
                    e = sc.barycentrictrueecliptic
                    l2, b2 = e.lon.rad, e.lat.rad
            check_cells(variant, l2, b2, gix, giy, nx, ny, tol, probs, variant, check_cols=(variant != "plate_carree_ecliptic_sampler"), polar_exempt=rotated)
            # periodicity
            k = R.choice([-3, -2, -1, 1, 2, 3])
            out2 = np.asarray(f(lon + TWOPI * k, lat))
            cell2 = (out2[..., 0] // 8) if C else out2
            diff = cell2 != cell
            if diff.any():
                # the shifted lookup must still name an acceptable cell of the unshifted point
                sub = diff
                pb = []
                check_cells(variant, np.asarray(l2)[sub], np.asarray(b2)[sub], (cell2 % nx)[sub], (cell2 // nx)[sub], nx, ny, max(tol, 1e-7), pb,
                            "%s (lon%+d*2pi)" % (variant, k), check_cols=(variant != "plate_carree_ecliptic_sampler"), polar_exempt=rotated)
                if variant == "plate_carree_ecliptic_sampler" and not pb:
                    # columns unspecified, but periodicity still demands the same column up to a boundary tie: compare directly
                    dc = np.abs((cell2 % nx)[sub] - (cell % nx)[sub])
                    dc = np.where(np.abs(np.asarray(b2)[sub]) > math.pi / 2 - 1e-5, 0, dc)  # longitude undetermined at the frame's poles
                    if ((dc > 1) & (dc < nx - 1)).any():
                        pb.append("%s map %dx%d: lookup at lon%+d*2pi names a column %d cells away" % (variant, ny, nx, k, int(dc.max())))
                probs += pb
            npts += lon.size
        if si == 0:
            # the same sampler object called from four threads with same-shaped requests
            from vlib import threads

            reqs = [gen_inputs(R, rng, 256, ny, nx, False) for _ in range(6)]
            reqs = [(lo.reshape(-1)[:240].reshape(4, 60), la.reshape(-1)[:240].reshape(4, 60)) for lo, la in reqs]
            ncalls, bad = threads.concurrent_vs_serial([(lambda lo=lo, la=la: np.array(f(lo, la))) for lo, la in reqs], lambda a, b: a.shape == b.shape and np.array_equal(a, b),
                                                       nthreads=4, rounds=6, seed=spec["seed"], budget_s=2.0)
            npts += ncalls * 240
            if bad:
                probs.append("%s map %dx%d: %d of %d calls made concurrently from 4 threads returned other cells than the same calls made serially" % (variant, ny, nx, len(bad), ncalls))
        combos.append([variant, ny, nx, C])
        if len(probs) > 6:
            break
    r = dict(counters={"points": npts, "maps": len(combos), "calls_" + variant: len(combos)}, nontrivial=npts >= 100,
             sets=dict(variant_shape_colour=combos), sample=dict(variant=variant, shapes=spec["shapes"][:3], colour=spec["colour"], points=npts))
    if probs:
        r.update(status="violation", key="wrong-cell:" + variant, detail="; ".join(probs[:5]))
    return r


def finish(agg, tier):
    c = agg["counters"]
    miss = [v for v in VARIANTS if c.get("calls_" + v, 0) < 5]
    if miss or c.get("points", 0) < 50000:
        return dict(inconclusive="variants not reached: %s; points %s" % (miss, c.get("points")))
    return {}
