"""C13: quadtree enumeration and counts are consistent and match what is visited."""
import collections
import itertools
import os
import random

from vlib import evlog, gens, instr_mp, models
from vlib import ref_quadtree as rq

PROPERTY = "C13"
LEVEL = "exploration"
JOBS = 16
CASE_TIMEOUT = 180
RULE = (
    "case kinds: 'pyr' = one generated pyramid (generic/TOAST/position-set filter/real lat-lon box; optional apex incl. apex==leaf "
    "and filters disjoint from the apex) on which count_leaf_tiles/count_live_tiles/count_operations are compared with the "
    "first-principles model, with the callbacks observed from visit_leaves and walk (serial; k=3 on a sample), with "
    "ops+leaves=live, closed forms and the sub-pyramid restriction of the full result; 'genpos' = generate_pos(d) order; "
    "'algebra' = pos_parent/pos_children/is_subtile on random and exhaustive positions; 'closed2' = exhaustive ancestor-closed "
    "filters of depth<=2. Non-trivial: a pyramid with >=1 live parent, or an enumeration/algebra batch; distinct by case spec."
    ' Also: histories on one Pyramid object; every list returned by pos_children is consumed by the caller and asked again; parallel vi'
    'sits under delay profiles with 3/4/8 workers; falsy callable filter objects.'
    ' Round 8: 48 cases in an interpreter started with PYTHONOPTIMIZE=1; pyramid objects re-depthed after use.'
)
ASSUMPTIONS = ["reference quadtree model (vlib/ref_quadtree.py) is correct", "filters are pure functions of the tile position/corners"]
EXHAUSTIVE = {"thorough": "all 83521 ancestor-closed position-set filters of depth 2 (serial counts and visits); generate_pos to depth 7; position algebra to depth 4"}


def cases(tier, seed):
    R = random.Random("c13/%d" % seed)
    out = []
    for d in range(0, 6 if tier == "quick" else 8):
        out.append(dict(t="genpos", depth=d))
    out.append(dict(t="algebra", seed=R.randrange(1 << 30), n=20000 if tier == "quick" else 100000, exh=3 if tier == "quick" else 4))
    n = 1500 if tier == "quick" else 15000
    for i in range(n):
        s = gens.gen_pyramid(R, maxdepth=4 if tier == "quick" else 5, redepth_p=0.1)
        s["t"] = "pyr"
        s["par"] = (i % 6 == 0) if tier == "quick" else (i % 10 == 0)
        s["seed"] = R.randrange(1 << 30)
        out.append(s)
    # histories on ONE Pyramid object: count / visit, then restrict or re-depth the same object and count / visit again
    for i in range(120 if tier == "quick" else 1500):
        s = gens.gen_pyramid(R, maxdepth=4, mindepth=1, kinds=("filtered", "filtered", "bbox", "toast", "generic"), sub_p=0)
        s["t"] = "objhist"
        s["seed"] = R.randrange(1 << 30)
        out.append(s)
    # the same questions asked of an interpreter started in optimised mode (python -O: `assert` statements and
    # `if __debug__:` blocks vanish) - a configuration, not an input
    for i in range(48 if tier == "quick" else 400):
        s = gens.gen_pyramid(R, maxdepth=4, mindepth=2, kinds=("filtered", "filtered", "bbox", "toast", "generic"))
        s["t"] = "pyr" if i % 3 else "objhist"
        if s["t"] == "objhist":
            s = gens.gen_pyramid(R, maxdepth=4, mindepth=1, kinds=("filtered", "filtered", "bbox", "toast", "generic"), sub_p=0)
            s["t"] = "objhist"
        s["par"] = i % 6 == 1
        s["seed"] = R.randrange(1 << 30)
        s["_env"] = {"PYTHONOPTIMIZE": "1"}
        out.append(s)
    # directed corner cases
    for d in (0, 1, 2, 3):
        for kind in ("generic", "toast"):
            out.append(dict(t="pyr", kind=kind, depth=d, apex=None, accepted=None, coordsys="astronomical", par=True, seed=d))
            if d >= 1:
                out.append(dict(t="pyr", kind=kind, depth=d, apex=[d, (1 << d) - 1, 0], accepted=None, coordsys="planetary", par=True, seed=d))
    out.append(dict(t="pyr", kind="filtered", depth=3, apex=[1, 0, 0], accepted=sorted(gens.closure([(3, 7, 7)])), coordsys="astronomical", par=True, seed=1, family="disjoint"))
    out.append(dict(t="pyr", kind="filtered", depth=2, apex=[2, 1, 1], accepted=[[1, 0, 0]], coordsys="astronomical", par=False, seed=1, family="apexrejected"))
    if tier == "thorough":
        # exhaustive depth-2 ancestor-closed filters, in chunks
        l1 = [(1, 0, 0), (1, 1, 0), (1, 0, 1), (1, 1, 1)]
        for m1 in range(16):
            for first in range(17):
                out.append(dict(t="closed2", m1=m1, first=first))
    else:
        for m1 in (1, 6, 15):
            out.append(dict(t="closed2", m1=m1, first=R.randrange(17), limit=300))
    return out


def _visits(spec, which, parallel, workdir, tag):
    """run visit_leaves or walk for real; returns (Counter of positions, problems list, outcome)"""
    log = os.path.join(workdir, "log-%s-%s-%d" % (tag, which, parallel))
    evlog.open_log(log)
    pyr = gens.build_pyramid(spec)
    bad = []

    if which == "leaves":
        def cb(pos, tile):
            evlog.ev("cb_start", pos=tuple(pos), tp=(None if tile is None else tuple(tile.pos)))
            if parallel > 1:
                instr_mp.cb_delay(tuple(pos), "leaves")
            evlog.ev("cb_end", pos=tuple(pos))

        def fn():
            pyr.visit_leaves(cb, parallel=parallel)
    else:
        def cb(pos):
            evlog.ev("cb_start", pos=tuple(pos))
            if parallel > 1:
                instr_mp.cb_delay(tuple(pos))
            evlog.ev("cb_end", pos=tuple(pos))

        def fn():
            pyr.walk(cb, parallel=parallel)

    if parallel > 1:
        outcome, info = models.run_stage(fn, log, "walk" if which == "walk" else "producer", watchdog=60)
    else:
        evlog.ev("stage_call")
        try:
            fn()
            evlog.ev("stage_ret")
            outcome = "returned"
        except Exception as e:
            evlog.ev("stage_exc", e=repr(e))
            outcome = "raised:" + repr(e)[:200]
    recs = evlog.read(log)
    evlog.close_log()
    c = collections.Counter(tuple(r["pos"]) for r in recs if r["k"] == "cb_start")
    for r in recs:
        if r["k"] == "cb_start" and r.get("tp") is not None and tuple(r["tp"]) != tuple(r["pos"]):
            bad.append("leaf %s delivered with tile.pos %s" % (r["pos"], r["tp"]))
    return c, bad, outcome


def _pyr_case(spec, workdir):
    depth = spec["depth"]
    apex = tuple(spec["apex"]) if spec.get("apex") else (0, 0, 0)
    acc = gens.resolve_accepted(spec)
    ref_leaves = rq.leaves(depth, acc, apex)
    ref_ops = rq.live_parents(depth, acc, apex)
    probs = []
    counters = collections.Counter()
    pyr = gens.build_pyramid(spec)
    nl, nv, no = pyr.count_leaf_tiles(), pyr.count_live_tiles(), pyr.count_operations()
    counters["count_calls"] += 3
    if nl != len(ref_leaves):
        probs.append("count_leaf_tiles=%d, reference %d" % (nl, len(ref_leaves)))
    if no != len(ref_ops):
        probs.append("count_operations=%d, reference %d" % (no, len(ref_ops)))
    if nv != len(ref_leaves) + len(ref_ops):
        probs.append("count_live_tiles=%d, reference %d" % (nv, len(ref_leaves) + len(ref_ops)))
    if no + nl != nv:
        probs.append("ops+leaves!=live: %d+%d!=%d" % (no, nl, nv))
    if spec["kind"] in ("generic", "toast"):
        cl = rq.closed_counts(depth, apex[0])
        if (nl, nv, no) != cl:
            probs.append("closed form %s vs %s" % (cl, (nl, nv, no)))
    pars = [1] + ([[3, 4, 8][spec.get("seed", 0) % 3]] if spec.get("par") else [])
    for par in pars:
        for which, ref in (("leaves", ref_leaves), ("walk", ref_ops)):
            c, bad, outcome = _visits(spec, which, par, workdir, "a")
            counters["callbacks_observed"] += sum(c.values())
            counters["visits_%s_k%d" % (which, par)] += 1
            probs += bad
            if outcome == "watchdog":
                return dict(status="inconclusive", detail="watchdog in %s k=%d" % (which, par))
            if outcome != "returned":
                probs.append("%s k=%d: outcome %s" % (which, par, outcome))
                continue
            if set(c) != ref or any(v != 1 for v in c.values()):
                probs.append("%s k=%d: visited %d (multiset max %d), reference %d; diff %s" % (
                    which, par, len(c), max(c.values() or [0]), len(ref), sorted(set(c) ^ ref)[:6]))
            n_reported = nl if which == "leaves" else no
            if sum(c.values()) != n_reported:
                probs.append("%s k=%d: %d callbacks observed but count reported %d" % (which, par, sum(c.values()), n_reported))
    # sub-pyramid = part of the full result below the apex (toasty against itself)
    if spec.get("apex"):
        full = dict(spec)
        full["apex"] = None
        for which in ("leaves", "walk"):
            cf, _, o1 = _visits(full, which, 1, workdir, "full")
            cs, _, o2 = _visits(spec, which, 1, workdir, "sub")
            counters["subpyramid_comparisons"] += 1
            part = {p for p in cf if rq.is_under(p, apex)}
            if o1 == "returned" and o2 == "returned" and set(cs) != part:
                probs.append("sub-pyramid %s: %d visited vs %d of the full result under the apex" % (which, len(cs), len(part)))
    nontrivial = len(ref_ops) >= 1
    counters["pyramids_with_live_parents"] += int(nontrivial)
    counters["pyramids_empty"] += int(not ref_leaves)
    res = dict(counters=dict(counters), nontrivial=nontrivial,
               sets=dict(kind_depth_apexn=[[spec["kind"], depth, apex[0], spec.get("family")]]),
               sample=dict(spec={k: v for k, v in spec.items() if k != "accepted"}, n_accepted=None if acc is None else len(acc),
                           leaves=len(ref_leaves), ops=len(ref_ops), counts=[nl, nv, no]))
    if probs:
        res.update(status="violation", key="counts-or-visits-mismatch", detail="; ".join(probs[:6]))
    else:
        res["status"] = "held"
    return res


def _objhist(spec, workdir):
    """counts and visits must describe the pyramid as it is NOW, whatever was computed on the same object before"""
    from toasty.pyramid import Pos

    R = random.Random(spec["seed"])
    depth = spec["depth"]
    acc = gens.resolve_accepted(spec)
    pyr = gens.build_pyramid(spec)
    probs = []
    steps = []

    def check(apex, d, label):
        a = acc
        if a is not None and d < depth:
            a = {p for p in a if p[0] <= d}
        rl, ro = rq.leaves(d, a, apex), rq.live_parents(d, a, apex)
        got = (pyr.count_leaf_tiles(), pyr.count_live_tiles(), pyr.count_operations())
        exp = (len(rl), len(rl) + len(ro), len(ro))
        if got != exp:
            probs.append("%s: counts (leaves, live, ops) = %s, reference %s" % (label, got, exp))
        seen = []
        pyr.visit_leaves(lambda pos, tile: seen.append((int(pos.n), int(pos.x), int(pos.y))), parallel=1)
        if sorted(seen) != sorted(rl):
            probs.append("%s: visit_leaves visited %d tiles, reference %d" % (label, len(seen), len(rl)))
        seen = []
        pyr.walk(lambda pos: seen.append((int(pos.n), int(pos.x), int(pos.y))), parallel=1)
        if sorted(seen) != sorted(ro):
            probs.append("%s: walk visited %d tiles, reference %d" % (label, len(seen), len(ro)))
        steps.append(label)

    check((0, 0, 0), depth, "fresh")
    check((0, 0, 0), depth, "repeated")
    d2 = depth
    if R.random() < 0.5 and depth >= 2:
        d2 = depth - 1
        pyr.depth = d2  # "The maximum depth of the pyramid ... This value may be changed."
        check((0, 0, 0), d2, "after depth %d -> %d" % (depth, d2))
    n = R.randrange(1, d2 + 1)
    cands = [p for p in (acc or []) if p[0] == n]
    apex = R.choice(cands) if cands and R.random() < 0.7 else (n, R.randrange(1 << n), R.randrange(1 << n))
    pyr.subpyramid(Pos(*apex))
    check(tuple(apex), d2, "after subpyramid(%s)" % (tuple(apex),))
    r = dict(counters=dict(object_histories=1, object_history_steps=len(steps)), nontrivial=True, sample=dict(spec={k: v for k, v in spec.items() if k != "accepted"}, steps=steps))
    if probs:
        r.update(status="violation", key="stale-state-on-reused-pyramid", detail="; ".join(probs[:5]))
    return r


def _genpos(spec):
    from toasty.pyramid import generate_pos

    d = spec["depth"]
    seen = {}
    probs = []
    for i, p in enumerate(generate_pos(d)):
        t = (p.n, p.x, p.y)
        if t in seen:
            probs.append("duplicate %s" % (t,))
        seen[t] = i
    exp = set(rq.all_positions(d))
    if set(seen) != exp:
        probs.append("positions differ: %d vs %d" % (len(seen), len(exp)))
    for t, i in seen.items():
        if t[0] < d:
            for c in rq.children(t):
                if c not in seen or seen[c] > i:
                    probs.append("child %s not before parent %s" % (c, t))
                    break
    r = dict(counters=dict(genpos_positions=len(seen)), nontrivial=d >= 1)
    if probs:
        r.update(status="violation", key="generate_pos-order", detail="; ".join(probs[:5]))
    return r


def _algebra(spec):
    from toasty.pyramid import Pos, is_subtile, pos_children, pos_parent

    R = random.Random(spec["seed"])
    probs = []
    n = 0

    def anc(p, k):
        return (p[0] - k, p[1] >> k, p[2] >> k)

    def chk(p):
        P = Pos(*p)
        ch = pos_children(P)
        exp = rq.children(p)
        if [tuple(c) for c in ch] != exp:
            probs.append("children of %s: %s" % (p, ch))
        for i, c in enumerate(ch):
            pp, ix, iy = pos_parent(c)
            if tuple(pp) != p or (ix, iy) != (i % 2, i // 2):
                probs.append("parent of %s: %s %s %s" % (c, pp, ix, iy))
            if not is_subtile(c, P):
                probs.append("is_subtile(child,parent) false for %s" % (c,))
        if not is_subtile(P, P):
            probs.append("is_subtile(p,p) false")
        # the returned list belongs to the caller (explicit-stack traversals pop from it): using it up must not change later answers
        if isinstance(ch, list):
            while ch:
                ch.pop()
            again = pos_children(P)
            if [tuple(c) for c in again] != exp:
                probs.append("children of %s after the caller consumed an earlier result: %s" % (p, again))

    for d in range(0, spec["exh"] + 1):
        for p in rq.all_positions(d, d):
            chk(p)
            n += 1
    allp = rq.all_positions(spec["exh"])
    for a in allp:
        for b in allp:
            if a[0] >= b[0]:
                got = is_subtile(Pos(*a), Pos(*b))
                exp = anc(a, a[0] - b[0]) == b
                n += 1
                if got != exp:
                    probs.append("is_subtile(%s,%s)=%s" % (a, b, got))
    for _ in range(spec["n"]):
        d = R.randrange(0, 41)
        p = (d, R.randrange(1 << d), R.randrange(1 << d))
        chk(p)
        k = R.randrange(0, d + 1)
        b = anc(p, k)
        if R.random() < 0.5 and b[0] > 0:
            b = (b[0], b[1] ^ R.choice([0, 1, 1 << R.randrange(b[0])]), b[2] ^ R.choice([0, 1]))
        got = is_subtile(Pos(*p), Pos(*b))
        if got != (anc(p, k) == b):
            probs.append("is_subtile(%s,%s)=%s" % (p, b, got))
        n += 1
    # ... and enumeration through the same positions afterwards is still complete
    from toasty.pyramid import Pyramid, generate_pos

    for d in (1, 2, 3):
        got = sorted((q.n, q.x, q.y) for q in generate_pos(d))
        if got != sorted(rq.all_positions(d)):
            probs.append("generate_pos(%d) after the algebra queries yields %d positions, expected %d" % (d, len(got), len(rq.all_positions(d))))
        seen = []
        Pyramid.new_generic(d).visit_leaves(lambda pos, tile: seen.append((pos.n, pos.x, pos.y)), parallel=1)
        if sorted(seen) != sorted(rq.all_positions(d, d)):
            probs.append("leaf visit of new_generic(%d) after the algebra queries: %d leaves, expected %d" % (d, len(seen), 4 ** d))
    r = dict(counters=dict(algebra_checks=n), nontrivial=True)
    if probs:
        r.update(status="violation", key="position-algebra", detail="; ".join(probs[:5]))
    return r


def _closed2(spec, workdir):
    """exhaustive ancestor-closed depth-2 filters: level-1 mask m1; the first accepted level-1 tile takes child
    subset `first` (0..15, 16=all with every other tile also enumerated); the others enumerate all 17 options"""
    l1 = [(1, 0, 0), (1, 1, 0), (1, 0, 1), (1, 1, 1)]
    acc1 = [l1[i] for i in range(4) if spec["m1"] >> i & 1]
    opts = list(range(16))
    probs = []
    n = 0
    counters = collections.Counter()
    combos = itertools.product(*[[spec["first"] % 16] if i == 0 else opts for i in range(len(acc1))]) if acc1 else [()]
    from toasty.pyramid import Pyramid

    for combo in combos:
        if spec.get("limit") and n >= spec["limit"]:
            break
        acc = set(acc1)
        for t, m in zip(acc1, combo):
            ch = rq.children(t)
            acc |= {ch[j] for j in range(4) if m >> j & 1}
        n += 1
        s = dict(kind="filtered", depth=2, apex=None, accepted=sorted(acc), coordsys="astronomical")
        pyr = gens.build_pyramid(s)
        rl, ro = rq.leaves(2, acc), rq.live_parents(2, acc)
        got = (pyr.count_leaf_tiles(), pyr.count_live_tiles(), pyr.count_operations())
        if got != (len(rl), len(rl) + len(ro), len(ro)):
            probs.append("filter %s: counts %s vs %s" % (sorted(acc), got, (len(rl), len(rl) + len(ro), len(ro))))
        seen = []
        gens.build_pyramid(s).visit_leaves(lambda pos, tile: seen.append(tuple(pos)), parallel=1)
        if sorted(seen) != sorted(rl):
            probs.append("filter %s: leaves %s" % (sorted(acc), seen))
        seen = []
        gens.build_pyramid(s).walk(seen.append, parallel=1)
        if sorted(map(tuple, seen)) != sorted(ro):
            probs.append("filter %s: walk %s" % (sorted(acc), seen))
        counters["closed2_filters"] += 1
    r = dict(counters=dict(counters), nontrivial=True)
    if probs:
        r.update(status="violation", key="counts-or-visits-mismatch", detail="; ".join(probs[:4]))
    return r


def run_case(spec, workdir):
    t = spec["t"]
    if t == "genpos":
        return _genpos(spec)
    if t == "algebra":
        return _algebra(spec)
    if t == "closed2":
        return _closed2(spec, workdir)
    if t == "objhist":
        return _objhist(spec, workdir)
    # parallel visits and walks run under a delay profile: slow / heavy-tailed callbacks, producer stalls, late starts
    instr_mp.install(["natural", "heavy_tail", "slow_workers", "stall", "heavy_tail", "late_check"][spec.get("seed", 0) % 6], spec.get("seed", 0))
    return _pyr_case(spec, workdir)


def finish(agg, tier):
    c = agg["counters"]
    need = dict(callbacks_observed=200, count_calls=300, subpyramid_comparisons=20, pyramids_with_live_parents=50, visits_walk_k3=5, visits_leaves_k3=5)
    miss = [k for k, v in need.items() if c.get(k, 0) < v]
    if miss:
        return dict(inconclusive="monitors not sufficiently reached: %s" % miss)
    return {}
