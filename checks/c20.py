"""C20: each input file contributes exactly the HDU and WCS solution the user selected."""
import argparse
import collections
import os
import random

import numpy as np

PROPERTY = "C20"
LEVEL = "exploration"
OPTIMIZED_SAMPLE = (8, 120)  # cases repeated under python -O (quick, thorough)
JOBS = 16
CASE_TIMEOUT = 300
RULE = (
    "one case = one generated collection of 1-5 multi-extension FITS files (each image HDU has a distinct shape, a constant marker value "
    "100*file+hdu and two or three WCS solutions whose CRPIX1 encodes (file, hdu, key); some files start with an empty primary or carry a "
    "table HDU) x one selection (hdu_index None / scalar / per-file list incl. permuted and repeated; wcs_key ' ' / letter / per-file list) "
    "x one entry point (collection.load, SimpleFitsCollection, CollectionLoader.create_from_args with the CLI's string options, "
    "`toasty tile-multi-tan --hdu-index N --wcs-key K`, tile_fits). Oracle: item i of descriptions() and of images() has the shape, marker "
    "and CRPIX of (file i, selected HDU, selected key); both sequences are in input order; export_simple() lists the same (path, hdu); for "
    "tiling entry points the markers found in the deepest tiles are exactly those of the selected HDUs. Non-trivial: >= 2 files or a "
    "non-default selection; distinct by spec."
    ' Also: the same path listed twice, tile-compressed image HDUs, data cubes in three axis orders, a selection one past the end of th'
    'e shortest file (an error is demanded), the collection re-used after being analysed for tiling.'
    " Round 8: entries counted from the end of a file; one selection list object used for two collections of different file lengths; the caller's list must stay unchanged."
    ' Round 9: a table-only FITS file in the middle of a collection with one WCS key per file and no HDU selection (reported, or every image file keeps its own key).'
)
ASSUMPTIONS = ["marker values and CRPIX encodings make the loaded HDU / WCS solution unambiguous"]
KEYS = [" ", "A", "B"]


def cases(tier, seed):
    R = random.Random("c20/%d" % seed)
    out = []
    n = 120 if tier == "quick" else 10000
    for i in range(n):
        nf = R.choice([1, 2, 3, 3, 5])
        hsel = R.choice(["none", "scalar", "list", "list", "list_perm"])
        ksel = R.choice(["space", "letter", "list"])
        entry = R.choice(["load", "load", "simple", "args", "args"])
        out.append(dict(nf=nf, hsel=hsel, ksel=ksel, entry=entry, seed=R.randrange(1 << 30), repeat=(i % 4 == 3)))
    # a selection that one of the files cannot honour (it has fewer HDUs): an error, never a silent substitute
    for i in range(8 if tier == "quick" else 80):
        out.append(dict(nf=R.choice([2, 3, 5]), hsel="beyond", ksel="space", entry=["simple", "load", "args", "simple"][i % 4], seed=R.randrange(1 << 30)))
    for i in range(6 if tier == "quick" else 60):
        out.append(dict(nf=R.choice([1, 2, 3]), hsel=R.choice(["scalar", "list"]) if i % 2 else "list", ksel=R.choice(["space", "letter"]), entry="tile_fits" if i % 2 == 0 else "cli_multi_tan", seed=R.randrange(1 << 30)))
    return out


def shape_of(f, h):
    return (40 + 6 * f + h, 50 + 3 * h + 5 * f)


def _cube_header(h2, order, key):
    """3-axis header from a 2-axis celestial one: `order` names what FITS axes 1..3 are"""
    from astropy.io import fits

    ax = {name: i + 1 for i, name in enumerate(order)}
    h = fits.Header()
    for card in h2.cards:
        k = card.keyword
        base, suf = (k[:-1], k[-1]) if (key and k.endswith(key)) else (k, "")
        if base[-1] in "12" and base[:-1] in ("CTYPE", "CRVAL", "CRPIX", "CDELT", "CUNIT"):
            n = ax["ra"] if base[-1] == "1" else ax["dec"]
            h[base[:-1] + str(n) + suf] = card.value
    sp = ax["spec"]
    h["CTYPE%d%s" % (sp, key)] = "FREQ"
    h["CRVAL%d%s" % (sp, key)] = 1.4e9
    h["CRPIX%d%s" % (sp, key)] = 1.0
    h["CDELT%d%s" % (sp, key)] = 1.0e6
    h["CUNIT%d%s" % (sp, key)] = "Hz"
    return h


def make_files(d, nf, R, cubes=False):
    """returns (paths, layout) with layout[f] = dict(image_hdus=[indices], first_image=index)"""
    from astropy.io import fits
    from astropy.table import Table

    from vlib import fitsgen

    paths = []
    layout = []
    bu = R.random() < 0.5  # ordinary FITS parity (bottom-up) for the whole collection, or top-down
    for f in range(nf):
        lead = R.choice(["image", "empty", "empty"])
        hdus = []
        image_idx = []
        if lead == "image":
            hdus.append(("img", 0))
        else:
            hdus.append(("empty", 0))
        table_at = R.choice([None, None, 2])
        k = 1
        while len([h for h in hdus if h[0] == "img"]) < 3:
            if table_at == k:
                hdus.append(("table", k))
            else:
                hdus.append(("img", k))
            k += 1
        hl = []
        for idx, (kind, _) in enumerate(hdus):
            if kind == "empty":
                hl.append(fits.PrimaryHDU())
            elif kind == "table":
                hl.append(fits.BinTableHDU(Table(dict(a=[1, 2, 3]))))
            else:
                sh = shape_of(f, idx)
                data = np.full(sh, float(100 * f + idx), np.float32)
                hdr = fits.Header()
                for ki, key in enumerate(KEYS):
                    kk = key.strip()
                    hdr.update(fitsgen.tan_header(1000 * f + 10 * idx + ki + 0.5, 7.0 + ki, key=kk, bottoms_up=bool(bu)))
                if cubes and R.random() < 0.25:
                    # a data cube: celestial axes first (the usual layout), spectral axis first, or a position-velocity cube
                    order = R.choice([("ra", "dec", "spec"), ("spec", "ra", "dec"), ("ra", "spec", "dec")])
                    nsp = R.choice([1, 3, 5])
                    lens = dict(ra=sh[1], dec=sh[0], spec=nsp)
                    data = np.full(tuple(lens[a] for a in reversed(order)), float(100 * f + idx), np.float32)
                    h3 = fits.Header()
                    for key in KEYS:
                        kk = key.strip()
                        h3.update(_cube_header(fits.Header([c for c in hdr.cards if (c.keyword.endswith(kk) if kk else c.keyword[-1].isdigit())]), order, kk))
                    h = fits.PrimaryHDU(data, header=h3) if idx == 0 else fits.ImageHDU(data, header=h3)
                elif idx > 0 and R.random() < 0.3:
                    # a tile-compressed image extension (fpack): an image HDU like any other (lossless GZIP for float data)
                    h = fits.CompImageHDU(data, header=hdr, compression_type="GZIP_1", quantize_level=0)
                else:
                    h = fits.PrimaryHDU(data, header=hdr) if idx == 0 else fits.ImageHDU(data, header=hdr)
                hl.append(h)
                image_idx.append(idx)
        p = os.path.join(d, "f%d.fits" % f)
        fits.HDUList(hl).writeto(p)
        paths.append(p)
        layout.append(dict(image_hdus=image_idx, first_image=image_idx[0], n=len(hl)))
    return paths, layout


def identify(obj, has_data):
    """(file, hdu, keyidx) encoded in an item; hdu/file from marker when data are present"""
    h = obj.wcs.to_header()
    crpix1 = h["CRPIX1"]
    code = int(round(crpix1 - 0.5))
    f, rest = divmod(code, 1000)
    hd, ki = divmod(rest, 10)
    shape = tuple(obj.shape)
    marker = None
    if has_data:
        a = obj.asarray()
        if not np.all(a == a.flat[0]):
            marker = "mixed"
        else:
            marker = int(a.flat[0])
    return f, hd, ki, shape, marker, h["CRPIX2"]


def run_case(spec, workdir):
    import toasty
    from toasty import cli, collection

    R = random.Random(spec["seed"])
    d = os.path.join(workdir, "in")
    os.makedirs(d)
    paths, layout = make_files(d, spec["nf"], R, cubes=(spec["entry"] in ("load", "simple", "args") and spec["seed"] % 3 == 0))
    if spec.get("repeat") and spec["entry"] in ("load", "simple", "args"):
        # the same file listed more than once (e.g. two HDUs of one file): the selection is per list position
        k = R.randrange(len(paths))
        paths.insert(R.randrange(len(paths) + 1), paths[k])
        layout = [dict(layout[int(os.path.basename(p)[1:-5])], file=int(os.path.basename(p)[1:-5])) for p in paths]
    if spec["entry"] in ("load", "simple") and spec["hsel"] == "none" and spec["ksel"] == "list" and len(paths) >= 2 and spec["seed"] % 2 == 0:
        # a file WITHOUT any image HDU (a source catalogue swept up by *.fits) in the middle of the collection, no HDU selected and
        # one WCS key per file: the collection says so (as the unchanged library does), or - if it chooses to carry on - every
        # image file still gets the key at ITS list position
        from astropy.io import fits as _fits
        from astropy.table import Table as _Table

        tp = os.path.join(d, "catalogue.fits")
        _fits.HDUList([_fits.PrimaryHDU(), _fits.table_to_hdu(_Table({"a": [1, 2, 3]}))]).writeto(tp)
        ins = 1
        keyidx = [R.randrange(3) for _ in range(len(paths) + 1)]
        plist = paths[:ins] + [tp] + paths[ins:]
        res = dict(counters=dict(collections=1, collections_with_a_table_only_file=1), nontrivial=True, sample=dict(spec=spec))
        try:
            wk = [KEYS[k] for k in keyidx]
            coll = collection.SimpleFitsCollection(plist, wcs_key=wk) if spec["entry"] == "simple" else collection.load(plist, wcs_key=wk)
            descs = list(coll.descriptions())
        except Exception:
            res["counters"]["table_only_file_reported"] = 1
            return res
        bad = []
        for dsc in descs:
            f_, h_, k_ = identify(dsc, False)[:3]
            pos_in_list = plist.index(getattr(dsc, "collection_id", None)) if getattr(dsc, "collection_id", None) in plist else None
            if pos_in_list is None or k_ != keyidx[pos_in_list]:
                bad.append("file %d (list position %s) was read with WCS key %r, its list position says %r" % (f_, pos_in_list, KEYS[k_] if k_ < 3 else k_, KEYS[keyidx[pos_in_list]] if pos_in_list is not None else None))
        if bad:
            res.update(status="violation", key="wrong-hdu-or-wcs:table-only-file", detail="; ".join(bad[:4]))
        return res
    nf = len(paths)
    fidx = [int(os.path.basename(p)[1:-5]) for p in paths]
    if spec["hsel"] == "beyond":
        short = min(range(nf), key=lambda i: layout[i]["n"])
        bad = layout[short]["n"] + R.choice([0, 0, 1])  # one past the end of the shortest file (may exist in longer ones)
        how = R.choice(["scalar", "list"])
        sel = bad if how == "scalar" else [bad if i == short else layout[i]["first_image"] for i in range(nf)]
        try:
            if spec["entry"] == "simple":
                coll = collection.SimpleFitsCollection(paths, hdu_index=sel)
            elif spec["entry"] == "load":
                coll = collection.load(paths, hdu_index=sel)
            else:
                ns = argparse.Namespace(hdu_index=(str(sel) if isinstance(sel, int) else ",".join(map(str, sel))), wcs_key=None, blankval=None)
                coll = collection.CollectionLoader.create_from_args(ns).load_paths(paths)
            got = [identify(x, False)[:2] for x in coll.descriptions()]
            list(coll.images())
            reported = False
        except Exception:
            reported = True
        res = dict(counters={"selections_beyond_a_file": 1, "entry_" + spec["entry"]: 1}, nontrivial=True, sample=dict(spec=spec, selection=sel, hdus_per_file=[l["n"] for l in layout]))
        if not reported:
            res.update(status="violation", key="wrong-hdu-or-wcs:selection-beyond-file-ignored",
                       detail="HDU selection %s: file %d has only %d HDUs, yet the collection loaded without an error and contributed (file, hdu) = %s" % (sel, short, layout[short]["n"], got))
        return res
    # selections valid for the layout
    common = sorted(set.intersection(*[set(l["image_hdus"]) for l in layout]))
    if spec["hsel"] == "none":
        hdu_index = None
        exp_h = [l["first_image"] for l in layout]
    elif spec["hsel"] == "scalar":
        if not common:
            hdu_index = None
            exp_h = [l["first_image"] for l in layout]
        else:
            hdu_index = R.choice(common)
            exp_h = [hdu_index] * nf
    else:
        exp_h = [R.choice(l["image_hdus"]) for l in layout]
        if spec["hsel"] == "list_perm" and nf >= 2:
            exp_h = [layout[i]["image_hdus"][(i + 1) % 3] for i in range(nf)]
        if spec.get("repeat"):
            # make sure the repeated file gets two different HDUs
            seen = {}
            for i in range(nf):
                if fidx[i] in seen and exp_h[i] == exp_h[seen[fidx[i]]]:
                    exp_h[i] = [h for h in layout[i]["image_hdus"] if h != exp_h[i]][0]
                seen.setdefault(fidx[i], i)
        hdu_index = list(exp_h)
        if spec["entry"] in ("load", "simple", "args") and spec["seed"] % 3 == 0:
            # some entries counted from the END of their file (-1 = the last HDU), as Python indexing and astropy allow
            for i in range(nf):
                if R.random() < 0.6:
                    hdu_index[i] = exp_h[i] - layout[i]["n"]
    orig_sel = list(hdu_index) if isinstance(hdu_index, list) else hdu_index
    if spec["ksel"] == "space":
        wcs_key = " "
        exp_k = [0] * nf
    elif spec["ksel"] == "letter":
        ki = R.choice([1, 2])
        wcs_key = KEYS[ki]
        exp_k = [ki] * nf
    else:
        exp_k = [R.randrange(3) for _ in range(nf)]
        wcs_key = [KEYS[k] for k in exp_k]
    probs = []
    entry = spec["entry"]
    counters = collections.Counter()
    counters["entry_" + entry] += 1
    counters["hsel_" + spec["hsel"]] += 1
    counters["ksel_" + spec["ksel"]] += 1
    if entry in ("tile_fits", "cli_multi_tan"):
        out = os.path.join(workdir, "out")
        if entry == "tile_fits":
            toasty.tile_fits(paths, out_dir=out, hdu_index=hdu_index, wcs_key=wcs_key, parallel=1, override=True)
        else:
            if isinstance(hdu_index, list) or hdu_index is None:
                hdu_index = common[0] if common else layout[0]["first_image"]
                exp_h = [hdu_index] * nf
                if not common:
                    paths, layout, exp_h, exp_k = paths[:1], layout[:1], exp_h[:1], exp_k[:1]
                    nf = 1
            if isinstance(wcs_key, list):
                wcs_key = " "
                exp_k = [0] * nf
            cli.entrypoint(["tile-multi-tan", "--hdu-index", str(hdu_index), "--wcs-key", wcs_key, "--outdir", out, "-j", "1"] + paths)
        from vlib import tilegen

        tiles = tilegen.list_tiles(out, "fits")
        deepest = max(p[0] for p in tiles)
        seen = set()
        for p in tiles:
            if p[0] == deepest:
                a = tilegen.read_tile(out, p, "fits")
                seen |= set(np.unique(a[np.isfinite(a)]).astype(int).tolist())
        exp = {100 * fidx[f] + h for f, h in enumerate(exp_h)}
        if seen != exp:
            probs.append("markers in the deepest tiles %s, selected HDUs have markers %s" % (sorted(seen), sorted(exp)))
        counters["tilings"] += 1
    else:
        if entry == "load":
            coll = collection.load(paths if nf > 1 or R.random() < 0.5 else paths[0], hdu_index=hdu_index, wcs_key=wcs_key)
        elif entry == "simple":
            coll = collection.SimpleFitsCollection(paths, hdu_index=hdu_index, wcs_key=wcs_key)
        else:
            hs = None if hdu_index is None else (str(hdu_index) if isinstance(hdu_index, int) else ",".join(map(str, hdu_index)))
            ks = wcs_key if isinstance(wcs_key, str) else ",".join(wcs_key)
            if isinstance(hdu_index, list) and len(hdu_index) == 1:
                # "2" parses as a scalar, which is equivalent for a single file
                pass
            ns = argparse.Namespace(hdu_index=hs, wcs_key=ks, blankval=None)
            coll = collection.CollectionLoader.create_from_args(ns).load_paths(paths)
        descs = list(coll.descriptions())
        imgs = list(coll.images())
        exs = list(coll.export_simple())
        if len(descs) != nf or len(imgs) != nf or len(exs) != nf:
            probs.append("collection yields %d descriptions, %d images, %d export entries for %d files" % (len(descs), len(imgs), len(exs), nf))
        for i in range(min(nf, len(descs), len(imgs), len(exs))):
            want = (fidx[i], exp_h[i], exp_k[i], shape_of(fidx[i], exp_h[i]))
            fd = identify(descs[i], False)
            fi = identify(imgs[i], True)
            counters["items_identified"] += 2
            if fd[:4] != want:
                probs.append("description %d is (file %d, hdu %d, key %r, shape %s); selected (file %d, hdu %d, key %r, shape %s)" % (i, fd[0], fd[1], KEYS[fd[2]] if fd[2] < 3 else fd[2], fd[3], want[0], want[1], KEYS[want[2]], want[3]))
            if fi[:4] != want or fi[4] != 100 * fidx[i] + exp_h[i]:
                probs.append("image %d is (file %d, hdu %d, key %r, shape %s, marker %s); selected (file %d, hdu %d, key %r, marker %d)" % (i, fi[0], fi[1], KEYS[fi[2]] if fi[2] < 3 else fi[2], fi[3], fi[4], want[0], want[1], KEYS[want[2]], 100 * fidx[i] + exp_h[i]))
            if fd[:4] != fi[:4] or fd[5] != fi[5]:
                probs.append("description %d and image %d refer to different HDUs / WCS" % (i, i))
            if os.path.abspath(exs[i][0]) != os.path.abspath(paths[i]) or exs[i][1] not in (exp_h[i], exp_h[i] - layout[i]["n"]):
                probs.append("export_simple()[%d] = %s, expected (%s, %d)" % (i, exs[i], os.path.basename(paths[i]), exp_h[i]))
            if getattr(descs[i], "collection_id", None) != paths[i] or getattr(imgs[i], "collection_id", None) != paths[i]:
                probs.append("item %d not in input order (collection_id %s)" % (i, getattr(descs[i], "collection_id", None)))
        # history: the collection object is used (analysed for tiling, which normalises the parity of the descriptions it is
        # handed) and then asked again: descriptions and images must still describe the same HDUs with identical WCS
        try:
            coll._is_multi_tan()
            from toasty.builder import Builder
            from toasty.multi_tan import MultiTanProcessor
            from toasty.pyramid import PyramidIO

            MultiTanProcessor(coll).compute_global_pixelization(Builder(PyramidIO(os.path.join(workdir, "o"), default_format="fits")))
        except Exception:
            pass
        d2 = list(coll.descriptions())
        i2 = list(coll.images())
        for i in range(min(len(d2), len(i2), nf)):
            wa = np.array(d2[i].wcs.all_pix2world([[0.0, 0.0], [5.0, 3.0]], 0))
            wb = np.array(i2[i].wcs.all_pix2world([[0.0, 0.0], [5.0, 3.0]], 0))
            counters["items_identified"] += 1
            if tuple(d2[i].shape) != tuple(i2[i].shape) or not np.allclose(wa, wb, rtol=0, atol=1e-9):
                probs.append("after the collection was analysed for tiling, description %d and image %d disagree: pixel (0,0) is at %s vs %s" % (i, i, wa[0].round(6).tolist(), wb[0].round(6).tolist()))
            fdd = identify(d2[i], False)
            if fdd[:2] != (fidx[i], exp_h[i]):
                probs.append("after reuse, description %d refers to (file %d, hdu %d), selected (file %d, hdu %d)" % (i, fdd[0], fdd[1], fidx[i], exp_h[i]))
    if isinstance(orig_sel, list):
        counters["negative_entries"] += sum(1 for h in orig_sel if h < 0)
        if entry in ("load", "simple") and hdu_index != orig_sel:
            probs.append("the caller's own selection list was rewritten by the collection: passed %s, now %s" % (orig_sel, hdu_index))
        if entry in ("load", "simple") and nf >= 2 and all((l["n"] - 1) in l["image_hdus"] for l in layout) and len({l["n"] for l in layout}) >= 2:
            # ONE selection object ("the last HDU of every file") used for two collections whose files differ in length
            sel = [-1] * nf
            for ps, lay, fx in ((paths, layout, fidx), (paths[1:] + paths[:1], layout[1:] + layout[:1], fidx[1:] + fidx[:1])):
                c2 = collection.SimpleFitsCollection(ps, hdu_index=sel) if entry == "simple" else collection.load(ps, hdu_index=sel)
                got = [identify(im, True)[:2] for im in c2.images()]
                want = [(fx[i], lay[i]["n"] - 1) for i in range(nf)]
                counters["items_identified"] += nf
                counters["shared_selection_objects"] += 1
                if got != want:
                    probs.append("one selection list [-1, ...] used for two collections: got (file, hdu) %s, the last HDUs are %s" % (got, want))
    if entry in ("load", "simple", "args") and spec["seed"] % 2 == 0 and nf >= 2 and len(common) >= 2:
        # load() called from four threads of one process with DIFFERENT selections: every caller gets the HDUs it selected
        from vlib import threads

        sels = [common[i % len(common)] for i in range(4)]

        def one(h):
            c = collection.load(paths[:2], hdu_index=h, wcs_key=" ")
            return [e[1] for e in c.export_simple()]

        ncalls, bad = threads.concurrent_vs_serial([(lambda h=h: one(h)) for h in sels], lambda a, b: a == b, nthreads=4, rounds=150, seed=spec["seed"], budget_s=4.0)
        counters["loads_from_threads"] += ncalls
        if bad:
            probs.append("%d of %d load() calls made concurrently from 4 threads with different HDU selections returned other HDUs than the same calls made serially" % (len(bad), ncalls))
    res = dict(counters=dict(counters), nontrivial=(nf >= 2 or spec["hsel"] != "none" or spec["ksel"] != "space"),
               sets=dict(selection=[[spec["hsel"], spec["ksel"], entry]]),
               sample=dict(spec=spec, hdu_index=hdu_index, wcs_key=wcs_key, expected_hdus=exp_h, layout=[l["image_hdus"] for l in layout]))
    if probs:
        res.update(status="violation", key="wrong-hdu-or-wcs:" + entry, detail="; ".join(probs[:5]))
    return res


def finish(agg, tier):
    c = agg["counters"]
    miss = [k for k in ("entry_load", "entry_simple", "entry_args", "entry_tile_fits", "entry_cli_multi_tan", "hsel_list", "hsel_scalar", "hsel_none", "ksel_list") if c.get(k, 0) < 1]
    if miss or c.get("items_identified", 0) < 100:
        return dict(inconclusive="not reached: %s" % miss)
    return {}
