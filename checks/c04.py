"""C04: TOAST tiles partition the sphere, nest exactly, and are route-independent."""
import collections
import json
import random

import numpy as np

from vlib import coherence, gens
from vlib import ref_quadtree as rq
from vlib import ref_toast as rt

PROPERTY = "C04"
LEVEL = "exploration"
OPTIMIZED_SAMPLE = (4, 24)  # cases repeated under python -O (quick, thorough)
JOBS = 16
CASE_TIMEOUT = 900
TOL = 1e-12
RULE = (
    "'enum' case = all tiles of one coordinate system to depth D from generate_tiles(bottom_only=False): corners (as unit vectors) and "
    "`increasing` vs the independent reference grid per level, children vs parent corners/edge midpoints/diagonal midpoint, shared corners "
    "between neighbours incl. across quadrant borders and the folded outer edge of the square, areas (toast_tile_area per level = 4pi, "
    "parent = sum of children, vs a robust reference area), documented layout anchors at every depth, random points inside exactly one "
    "tile per depth. 'routes' case = a block of positions obtained by create_single_tile, generate_tiles_filtered (path and random "
    "position-set filters), toast_tile_for_point at the reference centre and full enumeration: corners/orientation must agree with each "
    "other and with the reference. 'deep' case = random positions at depth 9-20 through the three non-exhaustive routes. "
    "Non-trivial: every case (>= 100 tiles compared); distinct by spec."
    " 'live' cases: tiles handed out earlier (and a half-consumed enumeration) are re-examined after the other coordinate system was us"
    'ed through every route and after library tile filters were asked about them; enumerations advanced in lockstep / started and dropp'
    "ed inside another's loop (bounded) must equal solo enumerations. Route cases also look up a corner and an edge midpoint of every t"
    'ile.'
    " 'pyramid' cases: the Tile objects that a Pyramid (whole / filtered / restricted to a sub-pyramid, either coordinate system, 1-3 "
    "workers) hands to visit_leaves callbacks carry the reference corners and orientation of their position."
    ' Round 9: point lookups cut short by an asynchronous exception and then repeated.'
)
ASSUMPTIONS = ["reference TOAST subdivision (vlib/ref_toast.py) follows the documentation", "compiled extension as built; .pyx coherent with .c"]
EXHAUSTIVE = {"quick": "all 1364 tiles to depth 5 in both coordinate systems", "thorough": "all 87380 tiles to depth 8 in both coordinate systems"}


def precheck():
    return coherence.check()


def cases(tier, seed):
    R = random.Random("c04/%d" % seed)
    out = []
    D = 5 if tier == "quick" else 8
    for cs in ("astronomical", "planetary"):
        out.append(dict(t="enum", cs=cs, depth=D, npoints=20000, pdepth=5 if tier == "quick" else 6, seed=R.randrange(1 << 30), _timeout=900))
        dr = 5 if tier == "quick" else 6
        allp = rq.all_positions(dr, 1)
        for i in range(0, len(allp), 341):
            out.append(dict(t="routes", cs=cs, positions=allp[i:i + 341], seed=R.randrange(1 << 30)))
        for i in range(2 if tier == "quick" else 12):
            out.append(dict(t="live", cs=cs, depth=R.choice([2, 3]) if tier == "quick" else R.choice([2, 3, 4]), seed=R.randrange(1 << 30)))
        # the route by which tiles reach every sampler and tiler: the Tile objects a Pyramid hands to visit_leaves callbacks
        for i in range(14 if tier == "quick" else 150):
            ps = gens.gen_pyramid(R, maxdepth=4 if tier == "quick" else 5, mindepth=1, kinds=("toast", "toast", "filtered", "bbox"), sub_p=0.7)
            ps.update(t="pyramid", cs=cs, coordsys=cs, seed=R.randrange(1 << 30), par=R.choice([1, 1, 2, 3]))
            out.append(ps)
        nd = 2000 if tier == "quick" else 50000
        for i in range(0, nd, 500):
            out.append(dict(t="deep", cs=cs, n=500, seed=R.randrange(1 << 30)))
    return out


def _cs(name):
    from toasty.toast import ToastCoordinateSystem as CS

    return CS.PLANETARY if name == "planetary" else CS.ASTRONOMICAL


def _cmp_tile(t, ref_c, ref_inc, probs, what):
    c = rt.corners_to_xyz(t.corners)
    d = np.abs(c - np.array(ref_c)).max()
    if d > TOL:
        probs.append("%s %s: corners differ from the reference by %.3g" % (what, tuple(t.pos), d))
    if bool(t.increasing) != bool(ref_inc):
        probs.append("%s %s: increasing=%s, reference %s" % (what, tuple(t.pos), t.increasing, ref_inc))


def case_enum(spec):
    from toasty import toast

    cs = _cs(spec["cs"])
    pl = spec["cs"] == "planetary"
    D = spec["depth"]
    probs = []
    C = {n: np.full((1 << n, 1 << n, 4, 3), np.nan) for n in range(1, D + 1)}
    I = {n: np.zeros((1 << n, 1 << n), bool) for n in range(1, D + 1)}
    A = {n: np.zeros((1 << n, 1 << n)) for n in range(1, min(D, 7) + 1)}
    seen = collections.Counter()
    order = {}
    for i, t in enumerate(toast.generate_tiles(D, bottom_only=False, coordsys=cs)):
        n, x, y = t.pos
        seen[(n, x, y)] += 1
        order[(n, x, y)] = i
        C[n][y, x] = rt.corners_to_xyz(t.corners)
        I[n][y, x] = bool(t.increasing)
        if n in A:
            A[n][y, x] = toast.toast_tile_area(t)
    exp = set(rq.all_positions(D, 1))
    if set(seen) != exp or any(v != 1 for v in seen.values()):
        probs.append("enumeration: %d positions (max multiplicity %d), expected %d" % (len(seen), max(seen.values()), len(exp)))
    for p, i in order.items():
        if p[0] < D and any(order.get(c, 1 << 60) > i for c in rq.children(p)):
            probs.append("enumeration order: %s yielded before one of its children" % (p,))
            break
    ncomp = 0
    for n in range(1, D + 1):
        V, inc = rt.vertex_grid(n, pl)
        ref = np.stack([V[:-1, :-1], V[:-1, 1:], V[1:, 1:], V[1:, :-1]], axis=2)
        d = np.abs(C[n] - ref)
        ncomp += ref.shape[0] * ref.shape[1]
        if not np.all(d <= TOL):
            y, x = np.argwhere(~(d.max(axis=(2, 3)) <= TOL))[0]
            probs.append("tile (%d,%d,%d): corners differ from the reference by %.3g" % (n, x, y, np.nanmax(d[y, x])))
        if not np.array_equal(I[n], inc):
            y, x = np.argwhere(I[n] != inc)[0]
            probs.append("tile (%d,%d,%d): increasing=%s, reference %s" % (n, x, y, I[n][y, x], inc[y, x]))
        # neighbours share corners (toasty against itself)
        c = C[n]
        N = 1 << n
        for (a, b, name) in ((c[:, :-1, 1], c[:, 1:, 0], "UR/UL"), (c[:, :-1, 2], c[:, 1:, 3], "LR/LL"), (c[:-1, :, 3], c[1:, :, 0], "LL/UL"), (c[:-1, :, 2], c[1:, :, 1], "LR/UR")):
            dd = np.abs(a - b).max() if a.size else 0
            if dd > TOL:
                probs.append("level %d: neighbouring tiles disagree on a shared corner (%s) by %.3g" % (n, name, dd))
        # folded outer edge: the top edge S-T-S is one meridian walked twice, etc.
        fold = [(c[0, :, 0], c[0, ::-1, 1], "top"), (c[-1, :, 3], c[-1, ::-1, 2], "bottom"), (c[:, 0, 0], c[::-1, 0, 3], "left"), (c[:, -1, 1], c[::-1, -1, 2], "right")]
        for a, b, name in fold:
            dd = np.abs(a - b).max()
            if dd > TOL:
                probs.append("level %d: tiles across the folded %s edge of the square disagree by %.3g" % (n, name, dd))
        # children exactly tile the parent
        if n < D:
            ch = C[n + 1]
            par = C[n]
            ul, ur, lr, ll = par[:, :, 0], par[:, :, 1], par[:, :, 2], par[:, :, 3]
            to, ri, bo, le = rt.unit(ul + ur), rt.unit(ur + lr), rt.unit(lr + ll), rt.unit(ll + ul)
            ce = np.where(I[n][..., None], rt.unit(ll + ur), rt.unit(ul + lr))
            expc = {
                (0, 0): (ul, to, ce, le), (0, 1): (to, ur, ri, ce), (1, 0): (le, ce, bo, ll), (1, 1): (ce, ri, lr, bo),
            }
            for (dy, dx), cor in expc.items():
                got = ch[dy::2, dx::2]
                dd = max(np.abs(got[:, :, k] - cor[k]).max() for k in range(4))
                if dd > TOL:
                    probs.append("level %d: child (%d,%d) corners are not the parent's corners/edge midpoints/diagonal midpoint (%.3g)" % (n, dx, dy, dd))
                if not np.array_equal(I[n + 1][dy::2, dx::2], I[n]):
                    probs.append("level %d: child orientation differs from the parent's" % n)
        # areas
        if n in A:
            tot = A[n].sum()
            if abs(tot - 4 * np.pi) > 4 * np.pi * 1e-9:
                probs.append("level %d: areas sum to %.12f, not 4pi" % (n, tot))
            refa = np.array([[rt.tile_area((ref[y, x, 0], ref[y, x, 1], ref[y, x, 2], ref[y, x, 3]), inc[y, x]) for x in range(N)] for y in range(N)]) if n <= 5 else None
            if refa is not None and not np.allclose(A[n], refa, rtol=1e-7, atol=0):
                y, x = np.argwhere(~np.isclose(A[n], refa, rtol=1e-7, atol=0))[0]
                probs.append("tile (%d,%d,%d): toast_tile_area %.12g vs reference %.12g" % (n, x, y, A[n][y, x], refa[y, x]))
            if n + 1 in A:
                s = A[n + 1][0::2, 0::2] + A[n + 1][0::2, 1::2] + A[n + 1][1::2, 0::2] + A[n + 1][1::2, 1::2]
                if not np.allclose(s, A[n], rtol=1e-8, atol=0):
                    probs.append("level %d: a tile's area differs from the sum of its children's areas" % n)
        # layout anchors, from toasty's own lon/lat corners
        lon0 = np.pi if pl else 0.0
        h = N // 2
        anchors = [
            (c[h, h, 0], rt.xyz(0, np.pi / 2), "centre of the square is the north pole"),
            (c[0, 0, 0], rt.xyz(0, -np.pi / 2), "top-left corner is the south pole"),
            (c[0, -1, 1], rt.xyz(0, -np.pi / 2), "top-right corner is the south pole"),
            (c[-1, -1, 2], rt.xyz(0, -np.pi / 2), "bottom-right corner is the south pole"),
            (c[-1, 0, 3], rt.xyz(0, -np.pi / 2), "bottom-left corner is the south pole"),
            (c[h, -1, 1], rt.xyz(lon0, 0), "mid-right is lon0 on the equator"),
            (c[0, h, 0], rt.xyz(lon0 + np.pi / 2, 0), "mid-top is lon0+90"),
            (c[h, 0, 0], rt.xyz(lon0 + np.pi, 0), "mid-left is lon0+180"),
            (c[-1, h, 3], rt.xyz(lon0 + 1.5 * np.pi, 0), "mid-bottom is lon0+270"),
        ]
        for got, want, name in anchors:
            if np.abs(got - want).max() > TOL:
                probs.append("level %d layout: %s violated (%.3g)" % (n, name, np.abs(got - want).max()))
        # equator on the inscribed diamond: vertices on the diamond |x-h|+|y-h| == h have latitude 0
        V2 = np.full((N + 1, N + 1, 3), np.nan)
        V2[:-1, :-1] = c[:, :, 0]
        V2[:-1, -1] = c[:, -1, 1]
        V2[-1, :-1] = c[-1, :, 3]
        V2[-1, -1] = c[-1, -1, 2]
        yy, xx = np.indices((N + 1, N + 1))
        diamond = (np.abs(xx - h) + np.abs(yy - h)) == h
        if np.abs(V2[diamond][:, 2]).max() > TOL:
            probs.append("level %d layout: diamond vertices are not on the equator" % n)
        northern = (np.abs(xx - h) + np.abs(yy - h)) < h
        if (V2[northern][:, 2] <= 0).any() or (V2[~northern & ~diamond][:, 2] >= 0).any():
            probs.append("level %d layout: a vertex is in the wrong hemisphere" % n)
    # partition: random points are inside exactly one tile per depth (points near an edge skipped)
    rng = np.random.default_rng(spec["seed"])
    P = rt.unit(rng.normal(size=(spec["npoints"], 3)))
    npart = 0
    for n in range(1, min(D, spec["pdepth"]) + 1):
        c = C[n].reshape(-1, 4, 3)
        cen = rt.unit(c.sum(axis=1))
        inside = np.ones((len(c), len(P)), bool)
        near = np.zeros(len(P), bool)
        for k in range(4):
            nrm = np.cross(c[:, k], c[:, (k + 1) % 4])
            nrm /= np.linalg.norm(nrm, axis=1, keepdims=True)
            sg = np.sign(np.einsum("ij,ij->i", nrm, cen))
            dist = (nrm * sg[:, None]) @ P.T
            inside &= dist > 0
            near |= (np.abs(dist) < 1e-9).any(axis=0)
        cnt = inside.sum(axis=0)
        bad = (cnt != 1) & ~near
        npart += int((~near).sum())
        if bad.any():
            j = np.argwhere(bad)[0][0]
            probs.append("level %d: point %s lies inside %d tiles" % (n, P[j].round(6).tolist(), cnt[j]))
    r = dict(counters=dict(tiles_compared=ncomp, partition_point_tests=npart, enum_cases=1), nontrivial=True,
             sample=dict(cs=spec["cs"], depth=D, tiles=ncomp))
    if probs:
        r.update(status="violation", key="toast-geometry:" + spec["cs"], detail="; ".join(probs[:8]))
    return r


def case_routes(spec):
    from toasty import toast
    from toasty.pyramid import Pos

    cs = _cs(spec["cs"])
    pl = spec["cs"] == "planetary"
    R = random.Random(spec["seed"])
    probs = []
    n = 0
    pos_list = [tuple(p) for p in spec["positions"]]
    maxd = max(p[0] for p in pos_list)
    # random position-set filter containing a random third of the block (ancestor-closed), through filtered enumeration
    chosen = set(R.sample(pos_list, max(1, len(pos_list) // 3)))
    acc = set()
    for p in chosen:
        q = p
        while q[0] >= 1:
            acc.add(q)
            q = rq.parent(q)
    filt = {tuple(t.pos): t for t in toast.generate_tiles_filtered(maxd, lambda t: tuple(t.pos) in acc, bottom_only=False, coordsys=cs)}
    if set(filt) != acc:
        probs.append("filtered enumeration yielded %d tiles, the filter accepts %d reachable ones" % (len(filt), len(acc)))
    from toasty.toast import ToastCoordinateSystem as CS

    ocs = CS.ASTRONOMICAL if pl else CS.PLANETARY
    for p in pos_list:
        rc, rinc = rt.tile_corners(p, pl)
        # the same position in the other coordinate system first, in this same process (anything remembered per
        # position must not leak from one system into the other)
        to = toast.create_single_tile(Pos(*p), coordsys=ocs)
        orc, oinc = rt.tile_corners(p, not pl)
        _cmp_tile(to, orc, oinc, probs, "create_single_tile[other coordinate system]")
        t1 = toast.create_single_tile(Pos(*p), coordsys=cs)
        if tuple(t1.pos) != p:
            probs.append("create_single_tile(%s).pos = %s" % (p, tuple(t1.pos)))
        _cmp_tile(t1, rc, rinc, probs, "create_single_tile")
        n += 1
        if p in filt:
            t2 = filt[p]
            if np.array(t2.corners, dtype=float).tolist() != np.array(t1.corners, dtype=float).tolist() and np.abs(rt.corners_to_xyz(t2.corners) - rt.corners_to_xyz(t1.corners)).max() > TOL:
                probs.append("filtered enumeration and create_single_tile disagree at %s" % (p,))
            if bool(t2.increasing) != bool(t1.increasing):
                probs.append("filtered enumeration and create_single_tile disagree on orientation at %s" % (p,))
            n += 1
        lon, lat = rt.lonlat(rt.tile_centre(rc, rinc))
        t3 = toast.toast_tile_for_point(p[0], float(lat), float(lon) % (2 * np.pi), coordsys=cs)
        t3b = toast.create_single_tile(t3.pos, coordsys=cs)
        if np.abs(rt.corners_to_xyz(t3.corners) - rt.corners_to_xyz(t3b.corners)).max() > TOL or bool(t3.increasing) != bool(t3b.increasing):
            probs.append("toast_tile_for_point returned %s with corners/orientation that differ from create_single_tile of the same position" % (tuple(t3.pos),))
        if tuple(t3.pos) != p:
            probs.append("point lookup at the centre of tile %s returned position %s" % (p, tuple(t3.pos)))
        n += 1
        # lookups of points ON the tile's boundary (a corner, an edge midpoint): the answer is one of the tiles sharing
        # that corner / edge, i.e. a tile that contains the point
        rc_ = np.array(rc)
        k = R.randrange(4)
        for P in (rc_[k], rt.unit(rc_[k] + rc_[(k + 1) % 4])):
            lo, la = rt.lonlat(P)
            t4 = toast.toast_tile_for_point(p[0], float(la), float(lo) % (2 * np.pi), coordsys=cs)
            c4, _ = rt.tile_corners(tuple(int(v) for v in t4.pos), pl)
            sd = float(rt.signed_edge_distances(c4, P).min())
            n += 1
            if sd < -1e-9:
                probs.append("point lookup of a %s of tile %s returned %s, which does not contain the point (%.3g rad outside)" % ("corner / edge midpoint", p, tuple(t4.pos), -sd))
        if len(probs) > 12:
            break
    # a lookup that is cut short by an asynchronous exception (Ctrl-C, a raising timeout handler) and then repeated: the repeated
    # lookup is a route like any other
    from vlib import interrupt

    n_int = 0
    for _ in range(8):
        pa, pb = R.choice(pos_list), R.choice(pos_list)
        (la, ba), (lb, bb) = [rt.lonlat(rt.tile_centre(*rt.tile_corners(q, pl))) for q in (pa, pb)]
        toast.toast_tile_for_point(pa[0], float(ba), float(la) % (2 * np.pi), coordsys=cs)
        k = R.choice([1, 2, 3, 5, 8, 13, 30])
        n_int += int(interrupt.interrupted(lambda: toast.toast_tile_for_point(pb[0], float(bb), float(lb) % (2 * np.pi), coordsys=cs), k))
        t5 = toast.toast_tile_for_point(pb[0], float(bb), float(lb) % (2 * np.pi), coordsys=cs)
        n += 1
        if tuple(t5.pos) != pb:
            probs.append("point lookup at the centre of tile %s, repeated after it had been interrupted (at call #%d; previous lookup: centre of %s), returned position %s" % (pb, k, pa, tuple(t5.pos)))
    r = dict(counters=dict(route_comparisons=n, routes_cases=1, interrupted_lookups=n_int), nontrivial=True)
    if probs:
        r.update(status="violation", key="toast-routes:" + spec["cs"], detail="; ".join(probs[:8]))
    return r


def case_live(spec):
    """results stay what they were, and enumerations stay independent, while other work goes on in the same process:
    (1) tiles handed out earlier are re-examined after the other coordinate system has been used through every route;
    (2) several enumerations are advanced in lockstep / one is started and dropped inside another's loop."""
    from toasty import toast
    from toasty.pyramid import Pos
    from toasty.toast import ToastCoordinateSystem as CS

    cs = _cs(spec["cs"])
    pl = spec["cs"] == "planetary"
    ocs = CS.ASTRONOMICAL if pl else CS.PLANETARY
    R = random.Random(spec["seed"])
    D = spec["depth"]
    probs = []
    n = 0

    def snap(t):
        return (tuple(t.pos), np.array(t.corners, dtype=float).copy(), bool(t.increasing), t)

    kept = [snap(t) for t in toast.generate_tiles(D, bottom_only=False, coordsys=cs)]
    allp = rq.all_positions(D, 1)
    kept += [snap(toast.create_single_tile(Pos(*p), coordsys=cs)) for p in R.sample(allp, min(20, len(allp)))]
    for p in R.sample(allp, min(20, len(allp))):
        rc, rinc = rt.tile_corners(p, pl)
        lon, lat = rt.lonlat(rt.tile_centre(rc, rinc))
        kept.append(snap(toast.toast_tile_for_point(p[0], float(lat), float(lon) % (2 * np.pi), coordsys=cs)))
    running = toast.generate_tiles(D, bottom_only=False, coordsys=cs)  # an enumeration left half-way
    head = [snap(next(running)) for _ in range(5)]
    # ... the other coordinate system through every route
    for t in toast.generate_tiles(D, bottom_only=True, coordsys=ocs):
        pass
    for p in R.sample(allp, min(10, len(allp))):
        toast.create_single_tile(Pos(*p), coordsys=ocs)
        toast.toast_tile_for_point(p[0], R.uniform(-1.5, 1.5), R.uniform(0, 6.28), coordsys=ocs)
    list(toast.generate_tiles_filtered(D, lambda t: True, bottom_only=True, coordsys=ocs))
    # ... and the library's own tile filters are asked about the tiles that were handed out (a filter only inspects a tile)
    from toasty.samplers import _latlon_tile_filter

    for box in ((-0.3, 0.4, -0.2, 0.5), (2.0, 5.5, -1.5, 1.5), (6.0, 6.6, 0.1, 0.2)):
        flt = _latlon_tile_filter(*box)
        for x in kept[:: 3]:
            flt(x[3])
    import itertools

    LIM = 2 * len(allp) + 10  # an enumeration that does not end is cut here and shows up as a wrong sequence
    rest = [snap(t) for t in itertools.islice(running, LIM)]
    for (pos, c0, inc0, t) in kept + head:
        n += 1
        c1 = np.array(t.corners, dtype=float)
        if c1.shape != c0.shape or not np.array_equal(c1, c0) or bool(t.increasing) != inc0 or tuple(t.pos) != pos:
            probs.append("tile %s handed out earlier changed after the other coordinate system was used (corners moved by %.3g)" % (pos, float(np.abs(c1 - c0).max()) if c1.shape == c0.shape else -1))
            if len(probs) > 6:
                break
        rc, rinc = rt.tile_corners(pos, pl)
        _cmp_tile(t, rc, rinc, probs, "retained tile")
    seq = [x[0] for x in head + rest]
    solo = [tuple(t.pos) for t in toast.generate_tiles(D, bottom_only=False, coordsys=cs)]
    if seq != solo:
        probs.append("an enumeration resumed after other work yields a different sequence (%d vs %d positions)" % (len(seq), len(solo)))
    for x in rest:
        rc, rinc = rt.tile_corners(x[0], pl)
        _cmp_tile(x[3], rc, rinc, probs, "resumed enumeration")
    # (2) lockstep and nested-partial enumerations
    solo_o = [tuple(t.pos) for t in toast.generate_tiles(D, bottom_only=False, coordsys=ocs)]
    za, zo = [], []
    for ta, to in itertools.islice(zip(toast.generate_tiles(D, bottom_only=False, coordsys=cs), toast.generate_tiles(D, bottom_only=False, coordsys=ocs)), LIM):
        za.append(ta)
        zo.append(to)
    for name, got, ref, plx in (("this", za, solo, pl), ("the other", zo, solo_o, not pl)):
        if [tuple(t.pos) for t in got] != ref:
            probs.append("two enumerations advanced in lockstep: %s system yields %d positions, alone %d (or another order)" % (name, len(got), len(ref)))
        for t in got[:: max(1, len(got) // 40)]:
            rc, rinc = rt.tile_corners(tuple(t.pos), plx)
            _cmp_tile(t, rc, rinc, probs, "lockstep enumeration (%s system)" % name)
            n += 1
    D2 = max(1, D - 1)
    zb = list(itertools.islice(zip(toast.generate_tiles(D, bottom_only=True, coordsys=cs), toast.generate_tiles(D2, bottom_only=False, coordsys=cs)), LIM))
    if [tuple(a.pos) for a, b in zb] != [tuple(t.pos) for t in toast.generate_tiles(D, bottom_only=True, coordsys=cs)][: len(zb)]:
        probs.append("lockstep enumerations of depths %d and %d disturb each other" % (D, D2))
    outer = []
    for i, t in enumerate(itertools.islice(toast.generate_tiles(D, bottom_only=False, coordsys=cs), LIM)):
        outer.append(tuple(t.pos))
        if i % 7 == 3:
            g = toast.generate_tiles_filtered(D, lambda tt: True, bottom_only=True, coordsys=R.choice([cs, ocs]))
            next(g)
            next(g)
            del g  # a search started and dropped inside the loop body
        if i % 11 == 5:
            list(toast.generate_tiles(1, bottom_only=True, coordsys=ocs))  # a complete nested walk
    if outer != solo:
        probs.append("an enumeration with searches started and dropped inside its loop yields %d positions, alone %d (or another order)" % (len(outer), len(solo)))
    r = dict(counters=dict(live_checks=n, live_cases=1), nontrivial=True)
    if probs:
        r.update(status="violation", key="toast-live-objects:" + spec["cs"], detail="; ".join(probs[:6]))
    return r


def case_deep(spec):
    from toasty import toast
    from toasty.pyramid import Pos

    cs = _cs(spec["cs"])
    pl = spec["cs"] == "planetary"
    R = random.Random(spec["seed"])
    probs = []
    n = 0
    for _ in range(spec["n"]):
        d = R.randrange(9, 27)
        p = (d, R.randrange(1 << d), R.randrange(1 << d))
        if R.random() < 0.2:
            # structure: on the quadrant borders / outer edge
            p = (d, R.choice([0, (1 << d) - 1, 1 << (d - 1), (1 << (d - 1)) - 1]), p[2])
        rc, rinc = rt.tile_corners(p, pl)
        t1 = toast.create_single_tile(Pos(*p), coordsys=cs)
        _cmp_tile(t1, rc, rinc, probs, "create_single_tile")
        path = set()
        q = p
        while q[0] >= 1:
            path.add(q)
            q = rq.parent(q)
        got = [t for t in toast.generate_tiles_filtered(d, lambda t: tuple(t.pos) in path, bottom_only=True, coordsys=cs)]
        if len(got) != 1 or tuple(got[0].pos) != p:
            probs.append("path-filtered enumeration to %s yielded %s" % (p, [tuple(t.pos) for t in got][:3]))
        else:
            if np.abs(rt.corners_to_xyz(got[0].corners) - rt.corners_to_xyz(t1.corners)).max() > TOL or bool(got[0].increasing) != bool(t1.increasing):
                probs.append("filtered enumeration and create_single_tile disagree at %s" % (p,))
        lon, lat = rt.lonlat(rt.tile_centre(rc, rinc))
        t3 = toast.toast_tile_for_point(d, float(lat), float(lon) % (2 * np.pi), coordsys=cs)
        t3b = toast.create_single_tile(t3.pos, coordsys=cs)
        if np.abs(rt.corners_to_xyz(t3.corners) - rt.corners_to_xyz(t3b.corners)).max() > TOL or bool(t3.increasing) != bool(t3b.increasing):
            probs.append("point lookup returned %s with corners unlike create_single_tile of that position" % (tuple(t3.pos),))
        if tuple(t3.pos) != p:
            probs.append("point lookup at the centre of tile %s returned position %s" % (p, tuple(t3.pos)))
        n += 3
        if len(probs) > 12:
            break
    r = dict(counters=dict(deep_route_comparisons=n, deep_cases=1), nontrivial=True)
    if probs:
        r.update(status="violation", key="toast-routes-deep:" + spec["cs"], detail="; ".join(probs[:8]))
    return r


def case_pyramid(spec, workdir):
    """Tiles as a Pyramid object (whole / filtered / restricted to a sub-pyramid; either coordinate system) hands them to the
    callbacks of visit_leaves, serially or through worker processes: same corners and orientation as the reference."""
    import os

    pl = spec["cs"] == "planetary"
    pyr = gens.build_pyramid(spec)
    out = os.path.join(workdir, "tiles.jsonl")
    fd = os.open(out, os.O_WRONLY | os.O_CREAT | os.O_APPEND)

    def cb(pos, tile):
        rec = dict(pos=[int(v) for v in pos], tpos=[int(v) for v in tile.pos], c=np.array(tile.corners, dtype=float).tolist(), inc=bool(tile.increasing))
        os.write(fd, (json.dumps(rec) + "\n").encode())

    pyr.visit_leaves(cb, parallel=spec["par"])
    os.close(fd)
    probs = []
    n = 0
    seen = set()
    for line in open(out):
        rec = json.loads(line)
        p = tuple(rec["pos"])
        seen.add(p)
        if tuple(rec["tpos"]) != p:
            probs.append("leaf %s delivered with a tile whose pos is %s" % (p, tuple(rec["tpos"])))
        if p[0] == 0:
            continue
        rc, rinc = rt.tile_corners(p, pl)
        d = np.abs(rt.corners_to_xyz(rec["c"]) - np.array(rc)).max()
        n += 1
        if d > TOL:
            probs.append("Pyramid(%s%s).visit_leaves(parallel=%d) delivered tile %s with corners %.3g away from the %s reference" % (
                spec["kind"], ", apex %s" % (tuple(spec["apex"]),) if spec.get("apex") else "", spec["par"], p, d, spec["cs"]))
        if rec["inc"] != bool(rinc):
            probs.append("tile %s delivered with increasing=%s, reference %s" % (p, rec["inc"], rinc))
        if len(probs) > 8:
            break
    r = dict(counters=dict(pyramid_route_tiles=n, pyramid_cases=1, **{"pyramid_apex" if spec.get("apex") else "pyramid_whole": 1}), nontrivial=n > 0)
    if probs:
        r.update(status="violation", key="toast-pyramid-route:" + spec["cs"], detail="; ".join(probs[:6]))
    return r


def run_case(spec, workdir):
    if spec["t"] == "pyramid":
        return case_pyramid(spec, workdir)
    return dict(enum=case_enum, routes=case_routes, deep=case_deep, live=case_live)[spec["t"]](spec)


def finish(agg, tier):
    c = agg["counters"]
    if c.get("tiles_compared", 0) < 2000 or c.get("route_comparisons", 0) < 2000 or c.get("deep_route_comparisons", 0) < 1000 or c.get("pyramid_route_tiles", 0) < 100 or not c.get("pyramid_apex"):
        return dict(inconclusive="monitors not sufficiently reached: %s" % c)
    return {}
