"""C19: an error while processing any tile is reported to the caller in every parallelism mode."""
import collections
import os
import random

import numpy as np

from vlib import evlog, instr_mp, models
from vlib import ref_quadtree as rq

PROPERTY = "C19"
REPLAY_REPEATS = 10
LEVEL = "fault_enumeration"
JOBS = 12
CASE_TIMEOUT = 200
RULE = (
    "one case = one stage (walk, visit_leaves, u8_to_rgb via a failing PyramidIO read, _do_a_transform with a failing do_one, "
    "MultiTanProcessor.tile / MultiWcsProcessor.tile via a failing PyramidIO update or reproject_function, `toasty cascade` CLI on a "
    "pyramid with a corrupt tile) x worker count k in {1,2,4,8} x one fault: an exception of a given type injected at one chosen item. "
    "Quick: every item of the small item sets. Outcome from the event log: raised to the caller (held) / returned normally / stuck "
    "(protocol-state predicate) -> violation; wall-clock watchdog -> inconclusive. A case counts only if the fault_injected event is in "
    "the log. Non-trivial: k>=2; distinct by (stage, k, item, exception type, profile)."
    ' Also: failures after 0.25-1.5 s (late), of every item, while loading an input, as an unpicklable exception, as a signal death (SI'
    'GKILL/SIGSEGV/SIGABRT), as ENOSPC/EIO/EMFILE inside Image.save / load_path during a real cascade (source-free failpoints); sibling'
    's terminated inside Event.is_set; a stage that returns while the failing item is still in progress is a violation.'
    " Round 8: stage 'startmethod' - fresh interpreters with spawn / forkserver and a failing leaf callback, walk callback or sampler."
)
ASSUMPTIONS = ["stuck state is decided on protocol state (no enabled transition) at two polls with equal progress counters"]
EXHAUSTIVE = {"quick": "every item of: walk depth-2 generic (5 parents), leaves depth-1 and depth-2 (4+16), transform depth-1 (5 tiles)",
              "thorough": "every item of walk depth<=3, leaves depth<=3, transform depth<=2, every (input) of multi-TAN/multi-WCS collections, x k in {1,2,4,8}"}
EXC = ["RuntimeError", "OSError", "InjectedFault"]


class InjectedFault(Exception):
    pass


def _exc(name):
    if name.startswith("unpicklable"):
        # an exception object that cannot cross a process boundary by pickling: of a local class, holding an open file
        def make(msg):
            class LocalFailure(Exception):
                pass

            e = LocalFailure(msg)
            e.handle = open(os.devnull)
            return e

        return make
    if name.startswith("signal:"):
        # the processing of the item ends in a signal death (OOM killer, crash in native code), not in a Python exception
        import signal as _sig
        import time as _t

        def die(msg):
            os.kill(os.getpid(), getattr(_sig, name.split(":")[1]))
            _t.sleep(10)
            return RuntimeError(msg)

        return die
    return {"RuntimeError": RuntimeError, "OSError": OSError, "InjectedFault": InjectedFault}[name]


def cases(tier, seed):
    R = random.Random("c19/%d" % seed)
    out = []
    ks = [1, 2, 4, 8]
    profs = ["natural", "slow_workers", "late_start", "jitter", "slow_feeder", "slow_isset", "slow_feeder", "slow_isset", "stall"]

    def add(stage, item, **kw):
        s = dict(stage=stage, item=item, par=kw.pop("par", None) or R.choice(ks), exc=R.choice(EXC), profile=R.choice(profs), seed=R.randrange(1 << 30))
        s.update(kw)
        out.append(s)

    wd = [2] if tier == "quick" else [1, 2, 3]
    for d in wd:
        for p in rq.all_positions(d - 1):
            for k in ([2, 4] if tier == "quick" else ks):
                add("walk", list(p), depth=d, par=k)
    add("walk", [0, 0, 0], depth=2, par=1)
    add("walk", [2, 1, 3], depth=3, par=2, apex=[1, 0, 1])
    ld = [1, 2] if tier == "quick" else [1, 2, 3]
    for d in ld:
        for p in rq.all_positions(d, d):
            for k in ([R.choice([2, 4, 8])] if tier == "quick" else [1, 2, 8]):
                add("leaves", list(p), depth=d, par=k)
    add("leaves", [1, 0, 1], depth=1, par=1)
    td = [1] if tier == "quick" else [1, 2]
    for d in td:
        for p in rq.all_positions(d):
            for k in ([2, 4] if tier == "quick" else ks):
                add("u8", list(p), depth=d, par=k)
            add("doone", list(p), depth=d)
    add("u8", [1, 1, 0], depth=1, par=1)
    nm = 8 if tier == "quick" else 60
    for i in range(nm):
        n_in = R.choice([2, 3, 5])
        add("mtan", R.randrange(n_in), n_inputs=n_in, big=(i % 2 == 0), par=R.choice([1, 2, 4]) if i else 2)
        add("mwcs", R.randrange(n_in), n_inputs=n_in, how=R.choice(["reproject", "update"]), par=R.choice([1, 2, 4]) if i else 2)
        # the error happens while an input image is being LOADED (in the dispatching process), not in a worker
        add(R.choice(["mtan", "mwcs"]), R.randrange(n_in), n_inputs=n_in, how="load", par=R.choice([2, 4]))
    # late failures: the item fails only after a delay that outlasts every (dilated) queue time-out, so that the failing
    # worker is the last one alive, and systematic failures: EVERY item fails (after a short delay), so that all workers die
    # while the producer is still enqueueing
    for st, d in (("leaves", 2), ("leaves", 3), ("doone", 2), ("walk", 3), ("leaves", 2)):
        for k in (2, 4) if tier == "quick" else (2, 3, 4, 8):
            allp = rq.all_positions(d, d) if st == "leaves" else (rq.all_positions(d) if st == "doone" else rq.all_positions(d - 1))
            add(st, list(R.choice(allp[-4:])), depth=d, par=k, late=R.choice([0.25, 0.7, 1.5]), profile="natural")  # = 12 s ... 75 s of dilated time
            add(st, list(allp[-1]), depth=d, par=k, late=0.15, profile="slow_workers")
            if st != "walk":
                add(st, "ALL", depth=d, par=k, late=0.05, profile="natural")
    # I/O errors inside toasty's own tile I/O during a real cascade
    import errno as _errno

    for i in range(8 if tier == "quick" else 80):
        d = R.choice([2, 3])
        op = ["write", "read"][i % 2]
        pos = R.choice(rq.all_positions(d - 1)) if op == "write" else R.choice(rq.all_positions(d, 1))
        add("cascade_io", list(pos), depth=d, par=[1, 2, 4, 2][i % 4], fmt=R.choice(["npy", "fits", "png"]), op=op,
            errno=R.choice([[_errno.ENOSPC, "No space left on device (injected)"], [_errno.EIO, "Input/output error (injected)"], [_errno.EMFILE, "Too many open files (injected)"]]))
    # failures that are not plain picklable exceptions
    for exc in ("unpicklable", "signal:SIGKILL", "signal:SIGSEGV", "signal:SIGABRT"):
        for st, d in (("walk", 2), ("leaves", 2), ("walk", 3)) if tier == "quick" else (("walk", 2), ("leaves", 2), ("walk", 3), ("leaves", 3), ("walk", 2), ("leaves", 1)):
            allp = rq.all_positions(d, d) if st == "leaves" else rq.all_positions(d - 1)
            add(st, list(R.choice(allp)), depth=d, par=R.choice([2, 4]), exc=exc, profile=R.choice(["natural", "jitter", "slow_workers"]))
        add("leaves", [1, 0, 1], depth=1, par=1, exc=exc)
    # siblings of the failing worker are terminated while they are inside Event.is_set (holding the event's lock)
    for k in (2, 4, 8) if tier == "quick" else (2, 2, 3, 4, 4, 8, 8, 16):
        for st, d in (("walk", 2), ("walk", 3), ("leaves", 2), ("doone", 2)):
            allp = rq.all_positions(d, d) if st == "leaves" else (rq.all_positions(d) if st == "doone" else rq.all_positions(d - 1))
            add(st, list(R.choice(allp)), depth=d, par=k, profile="slow_isset")
    # interpreters whose multiprocessing start method is not fork (macOS / Windows default; Linux from Python 3.14): whatever
    # toasty does instead of forking workers there, a failing item must still be reported
    for m in ("spawn", "forkserver"):
        for st in ("leaves", "walk", "sample") if tier == "quick" else ("leaves", "walk", "sample", "leaves", "walk", "sample"):
            add("startmethod", [2, R.randrange(4), R.randrange(4)] if st != "walk" else [1, R.randrange(2), R.randrange(2)], depth=2, par=R.choice([2, 3, 4]), method=m, what=st)
    for k in (1, 2) if tier == "quick" else (1, 2, 2, 4):
        add("subprocess_cascade", [2, R.randrange(4), R.randrange(4)], depth=2, par=k, fmt=R.choice(["npy", "png"]))
    for k in (1, 2) if tier == "quick" else (1, 2, 4, 8):
        add("cli_cascade", [2, R.randrange(4), R.randrange(4)], depth=2, par=k, fmt=R.choice(["npy", "png"]))
    return out


def _stage_fn(spec, workdir):
    """returns (fn, kind) where fn runs the stage with the fault armed"""
    from toasty.pyramid import Pos, Pyramid

    st = spec["stage"]
    par = spec["par"]
    item = spec["item"]
    E = _exc(spec["exc"])
    if st == "walk":
        pyr = Pyramid.new_generic(spec["depth"])
        if spec.get("apex"):
            pyr.subpyramid(Pos(*spec["apex"]))

        def cb(pos):
            p = [int(pos.n), int(pos.x), int(pos.y)]
            evlog.ev("cb_start", pos=p)
            if p == item or item == "ALL":
                evlog.ev("fault_armed")
                if spec.get("late"):
                    import time as _time

                    _time.sleep(spec["late"])
                evlog.ev("fault_injected", pos=p)
                evlog.ev("cb_exc", pos=p)
                raise E("injected failure at %s" % p)
            instr_mp.cb_delay(tuple(p))
            evlog.ev("cb_end", pos=p)

        return (lambda: pyr.walk(cb, parallel=par)), "walk"
    if st == "leaves":
        pyr = Pyramid.new_toast(spec["depth"])

        def cb(pos, tile):
            p = [int(pos.n), int(pos.x), int(pos.y)]
            evlog.ev("cb_start", pos=p)
            if p == item or item == "ALL":
                evlog.ev("fault_armed")
                if spec.get("late"):
                    import time as _time

                    _time.sleep(spec["late"])
                evlog.ev("fault_injected", pos=p)
                evlog.ev("cb_exc", pos=p)
                raise E("injected failure at %s" % p)
            instr_mp.cb_delay(tuple(p))
            evlog.ev("cb_end", pos=p)

        return (lambda: pyr.visit_leaves(cb, parallel=par)), "producer"
    if st in ("u8", "doone"):
        from toasty import transform
        from toasty.image import Image
        from toasty.pyramid import PyramidIO

        from vlib.pio import LoggingPIO

        src = os.path.join(workdir, "src")
        p0 = PyramidIO(src, default_format="npy")
        for p in rq.all_positions(spec["depth"]):
            p0.write_image(Pos(*p), Image.from_array(np.full((256, 256), 7, np.uint8)), format="npy")
        pin = LoggingPIO(src, default_format="npy")
        pout = LoggingPIO(os.path.join(workdir, "out"), default_format="jpg")
        if st == "u8":
            pin.fail_at = dict(op="read", pos=item, exc=spec["exc"])
            return (lambda: transform.u8_to_rgb(pin, spec["depth"], pio_out=pout, parallel=par)), "producer"

        def do_one(buf, pos, pio_in, pio_out):
            p = [int(pos.n), int(pos.x), int(pos.y)]
            evlog.ev("cb_start", pos=p)
            if p == item or item == "ALL":
                evlog.ev("fault_armed")
                if spec.get("late"):
                    import time as _time

                    _time.sleep(spec["late"])
                evlog.ev("fault_injected", pos=p)
                evlog.ev("cb_exc", pos=p)
                raise E("injected failure at %s" % p)
            evlog.ev("cb_end", pos=p)

        return (lambda: transform._do_a_transform(pin, spec["depth"], lambda: None, do_one, pio_out=pout, parallel=par)), "producer"
    if st in ("mtan", "mwcs"):
        from toasty.builder import Builder
        from toasty.collection import SimpleFitsCollection
        from toasty.multi_tan import MultiTanProcessor
        from toasty.multi_wcs import MultiWcsProcessor

        from vlib import fitsgen
        from vlib.pio import LoggingPIO

        R = random.Random(spec["seed"])
        n = spec["n_inputs"]
        big = spec.get("big")
        W, H = (900, 700) if big else (500, 400)
        side = 300 if big else 120  # 300x300 float32 = 360 kB > pipe buffer: exercises the blocked-flush path
        rects = [(R.randrange(0, W - side), R.randrange(0, H - side), side, side) for _ in range(n)]
        rects[0] = (0, 0, side, side)
        rects[-1] = (W - side, H - side, side, side)
        ind = os.path.join(workdir, "in")
        os.makedirs(ind)
        paths = []
        for i, r in enumerate(rects):
            m = np.full((H, W), float(i + 1), np.float32)
            paths.append(fitsgen.write_piece(os.path.join(ind, "p%d.fits" % i), m, r, (W / 2.0, H / 2.0)))
        pio = LoggingPIO(os.path.join(workdir, "out"), default_format="fits")
        b = Builder(pio)
        coll = SimpleFitsCollection(paths)
        if spec.get("how") == "load":
            class FailingCollection(SimpleFitsCollection):
                def images(self):
                    for k, img in enumerate(SimpleFitsCollection.images(self)):
                        if k == item:
                            evlog.ev("fault_injected", input=item, where="load")
                            raise E("injected failure while loading input image %d" % item)
                        yield img

            coll = FailingCollection(paths)
        if st == "mtan" and spec.get("how") == "load":
            proc = MultiTanProcessor(coll)
            proc.compute_global_pixelization(b)
            return (lambda: proc.tile(pio, parallel=par)), "producer"
        if st == "mwcs" and spec.get("how") == "load":
            proc = MultiWcsProcessor(coll)
            proc.compute_global_pixelization(b)
            return (lambda: proc.tile(pio, lambda inp, output_projection=None, shape_out=None, return_footprint=False, **kw: np.full(shape_out, 1.0), parallel=par)), "producer"
        if st == "mtan":
            proc = MultiTanProcessor(coll)
            proc.compute_global_pixelization(b)
            # fail at the first tile the chosen input touches: find it from the sub-tiling
            pos = next(iter(proc._descs[item].sub_tiling.generate_populated_positions()))[0]
            # the same tile may be touched by an earlier input; fail on the item-th input by counting updates of its marker
            pio.fail_at = None
            target = float(item + 1)
            orig = pio.update_image

            from contextlib import contextmanager

            @contextmanager
            def upd(pos_, **kw):
                with orig(pos_, **kw) as img:
                    yield img
                    a = img.asarray()
                    if np.any(a == target):
                        evlog.ev("fault_injected", pos=tuple(pos_), input=item)
                        raise E("injected failure while tiling input %d" % item)

            pio.update_image = upd
            return (lambda: proc.tile(pio, parallel=par)), "producer"
        proc = MultiWcsProcessor(coll)
        proc.compute_global_pixelization(b)
        target = float(item + 1)
        if spec["how"] == "reproject":
            def rf(inp, output_projection=None, shape_out=None, return_footprint=False, **kw):
                val = float(np.asarray(inp[0]).flat[0])
                if val == target:
                    evlog.ev("fault_injected", input=item)
                    raise E("injected reprojection failure for input %d" % item)
                return np.full(shape_out, val)
        else:
            def rf(inp, output_projection=None, shape_out=None, return_footprint=False, **kw):
                return np.full(shape_out, float(np.asarray(inp[0]).flat[0]))

            orig = pio.update_image
            from contextlib import contextmanager

            @contextmanager
            def upd(pos_, **kw):
                with orig(pos_, **kw) as img:
                    yield img
                    if np.any(img.asarray() == target):
                        evlog.ev("fault_injected", pos=tuple(pos_), input=item)
                        raise E("injected failure while tiling input %d" % item)

            pio.update_image = upd
        return (lambda: proc.tile(pio, rf, parallel=par)), "producer"
    if st == "cascade_io":
        # a real cascade in which ONE tile cannot be stored (ENOSPC / EIO inside toasty's own write path) or cannot be
        # loaded (EIO / EMFILE inside its read path): source-free failpoints at Image.save / ImageLoader.load_path
        import errno

        from toasty.image import Image
        from toasty.merge import averaging_merger, cascade_images
        from toasty.pyramid import PyramidIO

        from vlib import sched, tilegen

        d = os.path.join(workdir, "pyr")
        fmt = spec["fmt"]
        p0 = PyramidIO(d, default_format=fmt)
        for p in rq.all_positions(spec["depth"], spec["depth"]):
            arr = np.full((256, 256, 4), 9, np.uint8) if fmt == "png" else np.full((256, 256), 1.5, np.float32)
            p0.write_image(Pos(*p), Image.from_array(arr), format=fmt)
        rel = tilegen.tile_relpath(tuple(item), fmt)
        err = OSError(*spec["errno"])
        sched.failpoint("image.py", "save" if spec["op"] == "write" else "load_path", err, count=1,
                        when=lambda L: str(L.get("path_or_stream", L.get("path"))).endswith(rel),
                        on_fire=lambda: evlog.ev("fault_injected", pos=item, how="%s fails with %s" % (spec["op"], spec["errno"][1])))
        pio = PyramidIO(d, default_format=fmt)
        return (lambda: cascade_images(pio, spec["depth"], averaging_merger, parallel=par)), "walk"
    if st == "cli_cascade":
        from toasty import cli
        from toasty.image import Image
        from toasty.pyramid import PyramidIO

        d = os.path.join(workdir, "pyr")
        fmt = spec["fmt"]
        p0 = PyramidIO(d, default_format=fmt)
        for p in rq.all_positions(spec["depth"], spec["depth"]):
            arr = np.full((256, 256, 3), 9, np.uint8) if fmt == "png" else np.full((256, 256), 1.5, np.float32)
            p0.write_image(Pos(*p), Image.from_array(arr), format=fmt)
        bad = p0.tile_path(Pos(*item), format=fmt)
        with open(bad, "r+b") as f:
            f.truncate(40)  # corrupt tile: any reader fails
        evlog.ev("fault_injected", pos=item, how="truncated tile file")

        def fn():
            cli.entrypoint(["cascade", "--start", str(spec["depth"]), "-j", str(par), "--format", fmt, d])

        return fn, "walk"
    raise ValueError(st)


def case_subprocess(spec, workdir):
    """the real command line, un-instrumented, real time-outs: `toasty cascade` on a pyramid with a corrupt tile must
    exit non-zero. Only the exit status is observed; a run that is still going after the (generous) wall-clock limit is
    INCONCLUSIVE here - the stuck state itself is decided by the instrumented in-process variant (stage cli_cascade)."""
    import subprocess
    import sys

    from toasty.image import Image
    from toasty.pyramid import Pos, PyramidIO

    from vlib.core import repo_root

    d = os.path.join(workdir, "pyr")
    fmt = spec["fmt"]
    p0 = PyramidIO(d, default_format=fmt)
    for p in rq.all_positions(spec["depth"], spec["depth"]):
        arr = np.full((256, 256, 3), 9, np.uint8) if fmt == "png" else np.full((256, 256), 1.5, np.float32)
        p0.write_image(Pos(*p), Image.from_array(arr), format=fmt)
    bad = p0.tile_path(Pos(*spec["item"]), format=fmt)
    with open(bad, "r+b") as f:
        f.truncate(40)
    env = dict(os.environ, PYTHONPATH=repo_root() + os.pathsep + os.environ.get("PYTHONPATH", ""))
    cmd = [sys.executable, "-c", "from toasty.cli import entrypoint; entrypoint()", "cascade", "--start", str(spec["depth"]), "-j", str(spec["par"]), "--format", fmt, d]
    counters = collections.Counter({"faults_subprocess_cascade": 1, "faults_k%d" % spec["par"]: 1})
    try:
        r = subprocess.run(cmd, env=env, capture_output=True, text=True, timeout=90, start_new_session=True)
    except subprocess.TimeoutExpired:
        return dict(status="inconclusive", detail="`toasty cascade` still running after 90 s on a pyramid with a corrupt tile (wall-clock only: no verdict)")
    res = dict(counters=dict(counters, **{"outcome_exit%d" % min(r.returncode, 9): 1}), nontrivial=spec["par"] >= 2,
               sample=dict(spec=spec, returncode=r.returncode, stderr_tail=r.stderr[-300:]),
               sets=dict(fault_points=[["subprocess_cascade", spec["par"], spec["item"], fmt]]))
    if r.returncode == 0:
        res.update(status="violation", key="subprocess_cascade:%s:returned" % ("serial" if spec["par"] == 1 else "parallel"),
                   detail="`toasty cascade -j %d` exited 0 although tile %s is corrupt; stderr tail: %s" % (spec["par"], spec["item"], r.stderr[-300:]))
    return res


def case_startmethod(spec, workdir):
    import subprocess
    import sys

    from vlib.core import repo_root

    item = tuple(spec["item"])
    body = {
        "leaves": "    def cb(pos, tile):\n        if tuple(pos) == ITEM: raise RuntimeError('injected failure at %s' % (ITEM,))\n    Pyramid.new_toast(D).visit_leaves(cb, parallel=K)\n",
        "walk": "    def cb(pos):\n        if tuple(pos) == ITEM: raise RuntimeError('injected failure at %s' % (ITEM,))\n    Pyramid.new_generic(D).walk(cb, parallel=K)\n",
        "sample": "    import numpy as np, tempfile\n    from toasty import toast\n    from toasty.pyramid import PyramidIO\n    n = [0]\n"
                  "    def smp(lon, lat):\n        n[0] += 1\n        if n[0] == 1 + (ITEM[1] + ITEM[2]) %% 3: raise RuntimeError('injected sampler failure')\n        return np.zeros(lon.shape, np.float32)\n"
                  "    toast.sample_layer(PyramidIO(tempfile.mkdtemp(dir=%r), default_format='npy'), smp, D, parallel=K)\n" % workdir,
    }[spec["what"]]
    script = (
        "import multiprocessing as mp, os, sys\n"
        "mp.set_start_method(%r, force=True)\n"
        "sys.path.insert(0, %r)\n"
        "from toasty.pyramid import Pyramid\n"
        "ITEM, D, K = %r, %d, %d\n"
        "def main():\n%s"
        "if __name__ == '__main__':\n"
        "    try:\n        main()\n    except BaseException as e:\n        print('RAISED', type(e).__name__, e)\n        raise SystemExit(3)\n    print('RETURNED')\n" % (spec["method"], repo_root(), item, spec["depth"], spec["par"], body))
    sp = os.path.join(workdir, "stage_script.py")
    with open(sp, "w") as f:
        f.write(script)
    counters = collections.Counter({"faults_startmethod_" + spec["method"]: 1, "faults_k%d" % spec["par"]: 1})
    try:
        r = subprocess.run([sys.executable, sp], capture_output=True, text=True, timeout=90, start_new_session=True)
    except subprocess.TimeoutExpired:
        return dict(status="inconclusive", detail="stage %s under start method %s still running after 90 s (wall clock only: no verdict)" % (spec["what"], spec["method"]))
    res = dict(counters=counters, nontrivial=True, sample=dict(spec=spec, stdout_tail=r.stdout[-200:], stderr_tail=r.stderr[-300:]),
               sets=dict(fault_points=[["startmethod", spec["method"], spec["what"], spec["par"]]]))
    if "RETURNED" in r.stdout:
        res.update(status="violation", key="startmethod-%s:%s:returned" % (spec["method"], spec["what"]),
                   detail="start method %s, %s with parallel=%d: the failure injected at %s was not reported, the call returned normally; stderr tail: %s" % (spec["method"], spec["what"], spec["par"], item, r.stderr[-300:]))
    elif "RAISED" not in r.stdout:
        res.update(status="inconclusive", detail="stage script ended with %s without a verdict: %s" % (r.returncode, r.stderr[-300:]))
    return res


def run_case(spec, workdir):
    from vlib import sched

    try:
        return _run_case(spec, workdir)
    finally:
        sched.clear_failpoints()


def _run_case(spec, workdir):
    if spec["stage"] == "subprocess_cascade":
        return case_subprocess(spec, workdir)
    if spec["stage"] == "startmethod":
        return case_startmethod(spec, workdir)
    par = spec["par"]
    instr_mp.install(spec["profile"] if par > 1 else "natural", spec["seed"])
    log = os.path.join(workdir, "log")
    evlog.open_log(log)
    fn, kind = _stage_fn(spec, workdir)
    outcome, info = models.run_stage(fn, log, kind, watchdog=120, hostile=dict(seed=spec["seed"], p=0.03, files=("pyramid.py", "par_util.py", "merge.py", "multi_tan.py", "multi_wcs.py"), lo=0.001, hi=0.06, budget=1.0) if spec["seed"] % 4 == 0 else None)
    recs = evlog.read(log)
    evlog.close_log()
    injected = any(r["k"] == "fault_injected" for r in recs)
    counters = collections.Counter()
    counters["faults_%s" % spec["stage"]] += 1
    counters["faults_k%d" % par] += 1
    counters["outcome_" + outcome] += 1
    counters["exc_" + spec["exc"]] += 1
    counters["statement_delays"] = sum(1 for r in recs if r["k"] == "sched")
    if outcome == "watchdog":
        return dict(status="inconclusive", detail="watchdog: neither an outcome nor a stuck state was recognised")
    if not injected:
        if outcome == "returned" and any(r["k"] == "fault_armed" for r in recs):
            # the failing item was being processed when the operation returned normally: its error can no longer reach the caller
            return dict(status="violation", key="%s:%s:returned-while-failing-item-in-progress" % (spec["stage"], "serial" if par == 1 else "parallel"),
                        detail="stage %s k=%d: the operation returned normally while the item that fails (%s, after %.2f s) was still being processed" % (spec["stage"], par, spec["item"], spec.get("late") or 0),
                        counters=dict(counters), witness_files=dict(eventlog=log))
        return dict(status="inconclusive", detail="fault was never injected (item not reached)")
    sample = dict(spec=spec, outcome=outcome, info=info, tail=[{k: r.get(k) for k in ("k", "pid", "role", "q", "pos", "item", "e") if r.get(k) is not None} for r in recs[-8:]])
    res = dict(counters=dict(counters), nontrivial=par >= 2, sample=sample,
               sets=dict(fault_points=[[spec["stage"], par, spec["item"], spec["exc"], spec["profile"]]], interleaving_signatures=[models.signature(recs)]))
    if spec["stage"] == "walk" and isinstance(spec["item"], list) and spec["item"][0] >= 1:
        # the failed tile never completed: no callback may start for any of its ancestors, whatever the walk reports in the end
        # (the ordering half of the cascade-walk property, under a fault)
        anc = set()
        q = tuple(spec["item"])
        apex_n = (spec.get("apex") or [0])[0]
        while q[0] > apex_n:
            q = rq.parent(q)
            anc.add(q)
        started = [tuple(r["pos"]) for r in recs if r["k"] == "cb_start" and tuple(r["pos"]) in anc]
        if started:
            res.update(status="violation", key="walk:%s:ancestor-started-although-its-child-failed" % ("serial" if par == 1 else "parallel"),
                       detail="the callback of %s failed, yet callbacks started for its ancestors %s (outcome %s)" % (spec["item"], started[:4], outcome), witness_files=dict(eventlog=log))
            return res
    if outcome == "raised" or (par == 1 and outcome == "died" and str(spec["exc"]).startswith("signal:")):
        res["status"] = "held"  # (a signal death in serial mode takes the caller's own process down: visible)
        return res
    mode = "serial" if par == 1 else "parallel"
    res.update(status="violation", key="%s:%s:%s" % (spec["stage"], mode, outcome),
               detail="stage %s k=%d fault at %s (%s): outcome %s %s" % (spec["stage"], par, spec["item"], spec["exc"], outcome, info),
               witness_files=dict(eventlog=log))
    return res


def finish(agg, tier):
    c = agg["counters"]
    miss = [s for s in ("walk", "leaves", "u8", "doone", "mtan", "mwcs", "cli_cascade", "cascade_io") if c.get("faults_" + s, 0) < 2]
    if c.get("faults_k1", 0) < 3:
        miss.append("serial controls")
    if miss:
        return dict(inconclusive="fault enumeration incomplete: %s" % miss)
    return {}
