"""Catalogue of small realistic regressions used to validate the monitors (selftest/run.py)."""
MUTANTS = []


def M(id, prop, *edits):
    MUTANTS.append(dict(id=id, prop=prop, edits=list(edits)))


def MC(id, prop, *c_edits):
    """mutant of the compiled extension: edits of the generated C, recompiled with clang (no Cython here)"""
    MUTANTS.append(dict(id=id, prop=prop, edits=[], c_edits=list(c_edits)))


# ---- C13
M("c13-ops-count-leaf-live", "C13", ("pyramid.py", """                if count:
                    count += 1

            riter.set_data(count)""", """                count += 1

            riter.set_data(count)"""))
M("c13-ops-closedform", "C13", ("pyramid.py", "return depth2tiles(self.depth - (self._apex.n + 1))", "return depth2tiles(self.depth - self._apex.n - 1) if self._apex.n == 0 else depth2tiles(self.depth - self._apex.n)"))
M("c13-subpyr-offset", "C13", ("pyramid.py", "y_eff = pos.y + self._apex.y * 2**pos.n", "y_eff = pos.y + self._apex.x * 2**pos.n"))
M("c13-is-subtile", "C13", ("pyramid.py", "return deeper_pos.x == shallower_pos.x and deeper_pos.y == shallower_pos.y", "return deeper_pos.x == shallower_pos.x or deeper_pos.y == shallower_pos.y"))
M("c13-ensure-levels", "C13", ("pyramid.py", "        while ipos.n >= n_before:", "        while ipos.n > n_before:"))
M("c13-setdata-slot", "C13", ("pyramid.py", "self._levels[ppos.n][2 + 2 * iy + ix] = value", "self._levels[ppos.n][2 + 2 * ix + iy] = value"))

# ---- C01
M("c01-release-3bits", "C01", ("pyramid.py", "                if flags == 0xF:\n                    readiness.pop(ppos)", "                if bin(flags).count('1') >= 3:\n                    readiness.pop(ppos, None)"))
M("c01-put-before-cb", "C01", ("pyramid.py", "        callback(pos)\n        done_queue.put(pos)", "        done_queue.put(pos)\n        callback(pos)"))
M("c01-bit-swapped", "C01", ("pyramid.py", "                bit_num = 2 * y_index + x_index", "                bit_num = 2 * x_index + y_index"))
M("c01-seed-dead", "C01", ("pyramid.py", "            if pos.n == self.depth - 1 and is_live:\n                ready_queue.put(pos)", "            if pos.n == self.depth - 1:\n                ready_queue.put(pos)"))
M("c01-stop-n0", "C01", ("pyramid.py", "                if pos == self._apex:\n                    break", "                if pos.n == 0:\n                    break"))
M("c01-exit-first-empty", "C01", ("pyramid.py", """            pos = ready_queue.get(True, timeout=1)
        except Empty:
            if done:
                break
            continue

        callback(pos)""", """            pos = ready_queue.get(True, timeout=1)
        except Empty:
            break

        callback(pos)"""))
M("c01-prereadied-mirrored", "C01", ("pyramid.py", "                        pre_readied |= 1 << i", "                        pre_readied |= 1 << (3 - i)"))
M("c01-serial-live-and", "C01", ("pyramid.py", "                    is_live = data[0] or data[1] or data[2] or data[3]\n\n                    if is_live:\n                        callback(pos)", "                    is_live = data[0] or data[1] or data[2] or data[3]\n\n                    if data[0] or data[3] or pos.n < self.depth - 1 and is_live:\n                        callback(pos)"))

# ---- C03 (patterns refer to the tree after the worker-failure fix: the shutdown handshake lives in par_util.finish_workers)
M("c03-done-before-flush", "C03", ("par_util.py", "    queue.close()\n\n    flusher = threading.Thread(target=queue.join_thread, daemon=True)\n    flusher.start()\n", "    done_event.set()\n    queue.close()\n\n    flusher = threading.Thread(target=queue.join_thread, daemon=True)\n    flusher.start()\n"))
M("c03-no-join-thread", "C03", ("par_util.py", "    while flusher.is_alive():\n        flusher.join(timeout=1)\n        check_workers(workers, (queue,))\n", ""))
M("c03-item-twice", "C03", ("pyramid.py", "                    put_to_workers(ready_queue, (pos, tile), workers)\n", "                    put_to_workers(ready_queue, (pos, tile), workers)\n                    if pos.x == 3 and pos.y == 1:\n                        put_to_workers(ready_queue, (pos, tile), workers)\n"))
M("c03-last-leaf-skipped", "C03", ("pyramid.py", "                if is_leaf:\n                    put_to_workers(ready_queue, (pos, tile), workers)", "                if is_leaf and (pos.x + 1 < 2**pos.n or pos.y + 1 < 2**pos.n or pos.n < 2):\n                    put_to_workers(ready_queue, (pos, tile), workers)"))
M("c03-no-join-workers", "C03", ("par_util.py", "    done_event.set()\n\n    for w in workers:\n        w.join()", "    done_event.set()\n\n    for w in workers[1:]:\n        w.join()"))
M("c03-mtan-worker-exit-empty", "C03", ("multi_tan.py", """                image, desc = queue.get(True, timeout=1)
        except Empty:
            if done:
                break
            continue""", """                image, desc = queue.get(True, timeout=1)
        except Empty:
            break"""))
M("c03-leaf-wrong-tile", "C03", ("pyramid.py", "        callback(*args)", "        callback(args[0], args[1] if args[1] is None or args[0].x % 4 else args[1]._replace(increasing=not args[1].increasing))"))

# ---- C19 (regressions of the worker-failure reporting)
M("c19-walk-no-check", "C19", ("pyramid.py", "                    check_workers(workers, (ready_queue,))\n                    continue", "                    continue"))
M("c19-finish-no-final-check", "C19", ("par_util.py", "    for w in workers:\n        w.join()\n\n    check_workers(workers)", "    for w in workers:\n        w.join()"))
M("c19-check-ignores-exit1", "C19", ("par_util.py", "if w.exitcode is not None and w.exitcode != 0]", "if w.exitcode is not None and w.exitcode < 0]"))
M("c19-mtan-plain-finish", "C19", ("multi_tan.py", "        finish_workers(queue, done_event, workers)", "        queue.close()\n        queue.join_thread()\n        done_event.set()\n        for w in workers:\n            w.join()"))
M("c19-worker-swallows", "C19", ("pyramid.py", "        callback(*args)", "        try:\n            callback(*args)\n        except Exception as e:\n            print('error in worker:', e)"))

# ---- C10
M("c10-per-pid-lock", "C10", ("pyramid.py", '        with SoftFileLock(p + ".lock"):', '        import os as _os\n        with SoftFileLock(p + ".%d.lock" % _os.getpid()):'))
M("c10-no-lock", "C10", ("pyramid.py", '        with SoftFileLock(p + ".lock"):', '        if True:'))
M("c10-read-before-acquire", "C10", ("pyramid.py", '''        with SoftFileLock(p + ".lock"):
            img = self.read_image(
                pos,
                default=default,
                masked_mode=masked_mode,
                format=format or self._default_format,
            )
''', '''        img = self.read_image(
            pos,
            default=default,
            masked_mode=masked_mode,
            format=format or self._default_format,
        )
        with SoftFileLock(p + ".lock"):
'''))
M("c10-lock-keyed-by-format", "C10", ("pyramid.py", "        p = self.tile_path(pos)\n\n        with SoftFileLock", "        p = self.tile_path(pos, format=format and ('x' + format))\n\n        with SoftFileLock"))
M("c10-write-outside-lock", "C10", ("pyramid.py", "            yield img\n            self.write_image(pos, img, format=format or self._default_format)", "            yield img\n        self.write_image(pos, img, format=format or self._default_format)"))

# ---- C08
M("c08-offset-ceil", "C08", ("study.py", "        self._img_gx0 = (self._p2n - self._width) // 2", "        self._img_gx0 = (self._p2n - self._width + 1) // 2"))
M("c08-flip-slice-end", "C08", ("study.py", "                    if flip_tile_y0 == -1:\n                        flip_tile_y0 = None  # with a slice, -1 does the wrong thing\n\n                    by_idx = slice(flip_tile_y1, flip_tile_y0, -1)\n                else:\n                    by_idx = slice(tile_y, tile_y + height)\n\n                iy_idx = slice(image_y, image_y + height)\n                ix_idx = slice(image_x, image_x + width)\n                bx_idx = slice(tile_x, tile_x + width)\n\n                image.fill", "                    by_idx = slice(flip_tile_y1, flip_tile_y0, -1)\n                else:\n                    by_idx = slice(tile_y, tile_y + height)\n\n                iy_idx = slice(image_y, image_y + height)\n                ix_idx = slice(image_x, image_x + width)\n                bx_idx = slice(tile_x, tile_x + width)\n\n                image.fill"))
M("c08-p2n-strict", "C08", ("pyramid.py", "    while p < n:\n        p *= 2", "    while p <= n:\n        p *= 2"))
M("c08-subimage-offset", "C08", ("study.py", "        sub_tiling._img_gy0 += subim_iy", "        sub_tiling._img_gy0 += subim_ix"))
M("c08-tile-end", "C08", ("study.py", "        tile_end_tx = (\n            img_gx1 // 256\n        )", "        tile_end_tx = (\n            (img_gx1 + 1) // 256\n        )"))
M("c08-no-flip-fits", "C08", ("study.py", "        invert_into_tiles = pio.get_default_vertical_parity_sign() == 1", "        invert_into_tiles = False"))

# ---- C04
M("c04-planetary-offset", "C04", ("toast.py", "        lonlats[..., 0] = (lonlats[..., 0] + np.pi) % TWOPI", "        lonlats[..., 0] = (lonlats[..., 0] + HALFPI) % TWOPI"))
M("c04-single-tile-swapped", "C04", ("toast.py", "        tile = children[iy * 2 + ix]\n\n        if cur_n == pos.n:", "        tile = children[ix * 2 + iy] if cur_n > 3 else children[iy * 2 + ix]\n\n        if cur_n == pos.n:"))
M("c04-div4-centre", "C04", ("toast.py", "    ce = mid(ll, ur) if increasing else mid(ul, lr)", "    ce = mid(ll, ur) if (increasing or n >= 4) else mid(ul, lr)"))
M("c04-level1-flag", "C04", ("toast.py", "        Tile(Pos(n=1, x=0, y=1), lonlats[2], False),", "        Tile(Pos(n=1, x=0, y=1), lonlats[2], coordsys != ToastCoordinateSystem.PLANETARY and False or coordsys == ToastCoordinateSystem.PLANETARY),"))
M("c04-forpoint-stale-corners", "C04", ("toast.py", "            if score == 0.0:\n                tile = child\n                break", "            if score == 0.0:\n                tile = child if child.pos.n < 7 else child._replace(corners=tile.corners)\n                break"))
M("c04-area-diagonal", "C04", ("toast.py", "    if tile.increasing:\n        a1 = _spherical_triangle_area(ul[1], ul[0], ur[1], ur[0], ll[1], ll[0])", "    if not tile.increasing:\n        a1 = _spherical_triangle_area(ul[1], ul[0], ur[1], ur[0], ll[1], ll[0])"))

# ---- C05
M("c05-coords-transposed", "C05", ("toast.py", "        tile.corners[0],\n        tile.corners[1],\n        tile.corners[2],\n        tile.corners[3],\n        256,\n        tile.increasing,", "        tile.corners[0],\n        tile.corners[3],\n        tile.corners[2],\n        tile.corners[1],\n        256,\n        tile.increasing,"))
M("c05-coords-orientation", "C05", ("toast.py", "        256,\n        tile.increasing,\n    )", "        256,\n        tile.increasing or tile.pos.n >= 3,\n    )"))
M("c05-div4-python-diverges", "C05", ("toast.py", "    le = mid(ll, ul)\n", "    le = mid(ll, ul) if n < 9 else (mid(ll, ul)[0] + 1e-9, mid(ll, ul)[1])\n"))

# ---- C12
M("c12-level1-no-rotation", "C12", ("toast.py", "        level1_lon = (lon + np.pi) % TWOPI\n", "        level1_lon = lon\n"))
M("c12-no-unwrap", "C12", ("toast.py", "    lons = lon + (lons - lon + np.pi) % TWOPI - np.pi\n", ""))
M("c12-score-first-child", "C12", ("toast.py", "            if score > best_score:\n                tile = child\n                best_score = score", "            if score >= best_score - 1e-3:\n                tile = child\n                best_score = max(score, best_score)"))
M("c12-quadrant-boundary", "C12", ("toast.py", "        if lon > np.pi and lon < THREEHALFPI and tile.pos.x == 0 and tile.pos.y == 1:", "        if lon > np.pi and lon < THREEHALFPI - 0.01 and tile.pos.x == 0 and tile.pos.y == 1:"))
M("c12-stamp-offset", "C12", ("toast.py", "    return tile, x0 + x, y0 + y", "    return tile, min_x - halfsize + x, min_y - halfsize + y"))
M("c12-lon-not-normalised", "C12", ("toast.py", "    lon = lon % TWOPI\n\n    if depth == 0:", "    lon = lon % TWOPI if lon >= 0 else lon + TWOPI\n\n    if depth == 0:"))

# ---- C11
M("c11-half-pixel-shift", "C11", ("samplers.py", "    lon0 = -np.pi + 0.5 / dx  # longitudes of the centers of the pixels with ix = 0\n    lat0 = HALFPI - 0.5 / dy  # latitudes of the centers of the pixels with iy = 0\n\n    def vec2pix(lon, lat):\n        lon = (lon + np.pi) % TWOPI - np.pi  # ensure in range [-pi, pi]\n        ix = (lon - lon0) * dx", "    lon0 = -np.pi  # longitudes of the centers of the pixels with ix = 0\n    lat0 = HALFPI - 0.5 / dy  # latitudes of the centers of the pixels with iy = 0\n\n    def vec2pix(lon, lat):\n        lon = (lon + np.pi) % TWOPI - np.pi  # ensure in range [-pi, pi]\n        ix = (lon - lon0) * dx"))
M("c11-floor-for-round", "C11", ("samplers.py", "    lon0 = TWOPI - 0.5 / dx  # longitudes of the centers of the pixels with ix = 0\n    lat0 = HALFPI - 0.5 / dy  # latitudes of the centers of the pixels with iy = 0\n\n    def vec2pix(lon, lat):\n        lon = lon % TWOPI  # ensure in range [0, 2pi]\n        ix = (lon0 - lon) * dx\n        ix = np.round(ix).astype(int)", "    lon0 = TWOPI - 0.5 / dx  # longitudes of the centers of the pixels with ix = 0\n    lat0 = HALFPI - 0.5 / dy  # latitudes of the centers of the pixels with iy = 0\n\n    def vec2pix(lon, lat):\n        lon = lon % TWOPI  # ensure in range [0, 2pi]\n        ix = (lon0 - lon) * dx\n        ix = np.floor(ix).astype(int)"))
M("c11-no-clip-lastcol", "C11", ("samplers.py", "        lon = lon % TWOPI  # ensure in range [0, 2pi]\n        ix = (lon0 - lon) * dx\n        ix = np.round(ix).astype(int)\n        ix = np.clip(ix, 0, nx - 1)", "        lon = lon % TWOPI  # ensure in range [0, 2pi]\n        ix = (lon0 - lon) * dx\n        ix = np.round(ix).astype(int)\n        ix = np.clip(ix, 0, nx)"))
M("c11-galactic-latlon-swapped", "C11", ("samplers.py", "        lon, lat = gal.l.rad, gal.b.rad\n", "        lon, lat = gal.l.rad, lat\n"))
M("c11-sky-wrap", "C11", ("samplers.py", "    lon0 = np.pi - 0.5 / dx  # longitudes of the centers of the pixels with ix = 0\n    lat0 = HALFPI - 0.5 / dy  # latitudes of the centers of the pixels with iy = 0\n\n    def vec2pix(lon, lat):\n        lon = (lon + np.pi) % TWOPI - np.pi  # ensure in range [-pi, pi]", "    lon0 = np.pi - 0.5 / dx  # longitudes of the centers of the pixels with ix = 0\n    lat0 = HALFPI - 0.5 / dy  # latitudes of the centers of the pixels with iy = 0\n\n    def vec2pix(lon, lat):\n        lon = np.where(lon > np.pi, lon - TWOPI, lon)  # ensure in range [-pi, pi]"))
M("c11-ecliptic-row", "C11", ("samplers.py", "        lon, lat = ecl.lon.rad, ecl.lat.rad\n", "        lon, lat = ecl.lon.rad, -ecl.lat.rad\n"))

# ---- C02
M("c02-swap-quadrants", "C02", ("merge.py", "SLICES_MATCHING_PARITY = [\n    (slice(None, 256), slice(None, 256)),\n    (slice(None, 256), slice(256, None)),\n    (slice(256, None), slice(None, 256)),", "SLICES_MATCHING_PARITY = [\n    (slice(None, 256), slice(None, 256)),\n    (slice(256, None), slice(None, 256)),\n    (slice(None, 256), slice(256, None)),"))
M("c02-fits-matching-parity", "C02", ("merge.py", "        if pio.get_default_vertical_parity_sign() == 1:\n            self._slices = SLICES_OPPOSITE_PARITY", "        if pio.get_default_vertical_parity_sign() == 2:\n            self._slices = SLICES_OPPOSITE_PARITY"))
M("c02-no-buffer-clear", "C02", ("merge.py", "        if self._buf is not None:\n            self._buf.clear()\n", ""))
M("c02-mean-for-nanmean", "C02", ("merge.py", "return np.nanmean(data.reshape(s), axis=(1, 3)).astype(data.dtype)", "return np.mean(data.reshape(s), axis=(1, 3)).astype(data.dtype)"))
M("c02-stale-parent-kept", "C02", ("merge.py", "            try:\n                os.unlink(self._pio.tile_path(pos, makedirs=False))\n            except OSError:\n                pass\n            return", "            return"))
M("c02-opposite-slices-swapped", "C02", ("merge.py", "SLICES_OPPOSITE_PARITY = [\n    (slice(256, None), slice(None, 256)),\n    (slice(256, None), slice(256, None)),", "SLICES_OPPOSITE_PARITY = [\n    (slice(256, None), slice(256, None)),\n    (slice(256, None), slice(None, 256)),"))
M("c02-parent-written-masked", "C02", ("pyramid.py", "        if image.is_completely_masked():\n", "        if image.is_completely_masked() and pos.n > 0:\n"))

# ---- C14
M("c14-min-of-maxima", "C14", ("merge.py", "                max_value = max(max_values)", "                max_value = min(max_values)"))
M("c14-range-of-merged", "C14", ("merge.py", "        self._pio.write_image(pos, merged, min_value=min_value, max_value=max_value)", "        self._pio.write_image(pos, merged)"))
M("c14-explicit-range-ignored", "C14", ("image.py", "                if min_value is not None:\n                    header[\"DATAMIN\"] = min_value\n                else:", "                if min_value is not None and False:\n                    header[\"DATAMIN\"] = min_value\n                else:"))
M("c14-loader-drops-datamin", "C14", ("image.py", "                    min_value=min_value,\n                    max_value=max_value,\n                )\n            return img", "                    min_value=None,\n                    max_value=max_value,\n                )\n            return img"))
M("c14-builder-swaps", "C14", ("builder.py", '                self.imgset.data_min = top_tile[0].header["DATAMIN"]', '                self.imgset.data_min = float(np.nanmin(top_tile[0].data))'))
M("c14-first-child-only", "C14", ("merge.py", "            for image in children:\n                if image is not None:\n                    if image.data_min is not None:", "            for image in children[:3]:\n                if image is not None:\n                    if image.data_min is not None:"))

# ---- C06
M("c06-no-flip-fits", "C06", ("toast.py", "        self._invert_into_tiles = pio.get_default_vertical_parity_sign() == 1", "        self._invert_into_tiles = False"))
M("c06-neighbour-pos", "C06", ("toast.py", "            self._pio.write_image(pos, img, format=self._format)", "            self._pio.write_image(pos if pos.n < 2 or pos.x % 2 else pos._replace(x=pos.x + 1), img, format=self._format)"))
M("c06-level0-quadrant-swap", "C06", ("toast.py", "        iy = slice(128 * tile.pos.y, 128 * (tile.pos.y + 1))\n        ix = slice(128 * tile.pos.x, 128 * (tile.pos.x + 1))", "        iy = slice(128 * tile.pos.x, 128 * (tile.pos.x + 1))\n        ix = slice(128 * tile.pos.y, 128 * (tile.pos.y + 1))"))
M("c06-coordsys-dropped", "C06", ("toast.py", "    p = Pyramid.new_toast_filtered(depth, tile_filter, coordsys=coordsys)", "    p = Pyramid.new_toast_filtered(depth, tile_filter)"))
M("c06-update-overwrites", "C06", ("toast.py", "                img.update_into_maskable_buffer(\n                    basis, slice(None), slice(None), slice(None), slice(None)\n                )", "                img.fill_into_maskable_buffer(\n                    basis, slice(None), slice(None), slice(None), slice(None)\n                )"))
M("c06-level0-coordsys", "C06", ("toast.py", "            lon, lat = _toast_level0_get_coords(self._coordsys)", "            lon, lat = _toast_level0_get_coords(ToastCoordinateSystem.ASTRONOMICAL)"))

# ---- C07
M("c07-linspace-one-end", "C07", ("samplers.py", "            n1 = max(int(np.ceil(coarse_idx1[hi1] - coarse_idx1[lo1])) + 1, 2)", "            n1 = max(int(np.ceil(coarse_idx1[hi1] - coarse_idx1[lo1])), 1)"))
M("c07-pole-accept-dropped", "C07", ("samplers.py", "        corner_lonlats = np.asarray(tile.corners)\n        return tile_intersects_latlon_bbox(\n            corner_lonlats, image_lon_min, image_lon_max, image_lat_min, image_lat_max\n        )", "        corner_lonlats = np.asarray(tile.corners)\n        if abs(corner_lonlats[:, 1]).max() > 1.5707963 and image_lon_max - image_lon_min < 0.5:\n            return bool(np.any((corner_lonlats[:, 0] % TWOPI >= image_lon_min % TWOPI) & (corner_lonlats[:, 0] % TWOPI <= image_lon_max % TWOPI)))\n        return tile_intersects_latlon_bbox(\n            corner_lonlats, image_lon_min, image_lon_max, image_lat_min, image_lat_max\n        )"))
M("c07-chunk-edge-off-by-one", "C07", ("samplers.py", "        lon_r = self.sx * (cx + cw) - np.pi", "        lon_r = self.sx * (cx + cw - 1) - np.pi"))
M("c07-chunk-lat-edge", "C07", ("samplers.py", "        lat_d = HALFPI - self.sy * (cy + ch)  # note: lat_u > lat_d", "        lat_d = HALFPI - self.sy * (cy + ch - 0.5)  # note: lat_u > lat_d"))
M("c07-filter-sorts-caller-array", "C07", ("samplers.py", "        corner_lonlats = np.asarray(tile.corners)\n        return tile_intersects_latlon_bbox(", "        corner_lonlats = np.asarray(tile.corners)\n        if isinstance(tile.corners, np.ndarray) and tile.corners.flags.writeable:\n            tile.corners[:, 0].sort()\n        return tile_intersects_latlon_bbox("))
M("c07-no-lon-delta", "C07", ("samplers.py", "            refined_lon += 360 * deltas[e]\n", ""))
M("c07-coarse-grid-inset", "C07", ("samplers.py", "        coarse_idx1 = np.linspace(0.5, naxis1 + 0.5, N_COARSE)", "        coarse_idx1 = np.linspace(1, naxis1, N_COARSE)"))

# ---- C20
M("c20-key-list-ignored", "C20", ("collection.py", "                    wcs_key = self._wcs_key[path_index]", "                    wcs_key = self._wcs_key[0]"))
M("c20-hdu-list-first", "C20", ("collection.py", "                    hdu_index = self._hdu_index[path_index]\n                    hdu = hdul[hdu_index]", "                    hdu_index = self._hdu_index[path_index]\n                    hdu = hdul[self._hdu_index[0]]"))
M("c20-default-skips-primary", "C20", ("collection.py", "                    for hdu_index, hdu in enumerate(hdul):\n                        if (", "                    for hdu_index, hdu in enumerate(hdul):\n                        if hdu_index == 0 and len(hdul) > 1:\n                            continue\n                        if ("))
M("c20-args-list-reversed", "C20", ("collection.py", '                    index = list(map(int, settings.hdu_index.split(",")))', '                    index = sorted(map(int, settings.hdu_index.split(",")))'))
M("c20-export-wrong-index", "C20", ("collection.py", "                yield fits_path, hdu_index, hdu, wcs_key", "                yield fits_path, (0 if self._hdu_index is None else hdu_index), hdu, wcs_key"))
M("c20-load-drops-key", "C20", ("collection.py", "    loader.wcs_key = wcs_key\n    loader.blankval = blankval", "    loader.wcs_key = wcs_key if isinstance(wcs_key, str) else ' '\n    loader.blankval = blankval"))

# ---- C16
M("c16-cd12-not-negated", "C16", ("image.py", '    h["CD1_2"] *= -1\n', ""))
M("c16-crpix-off-by-one", "C16", ("image.py", '        image_height + 1 - h["CRPIX2"]', '        image_height - h["CRPIX2"]'))
M("c16-parity-sign", "C16", ("image.py", "    det = cd1_1 * cd2_2 - cd1_2 * cd2_1\n", "    det = cd1_1 * cd2_2 + cd1_2 * cd2_1\n"))
M("c16-desc-uses-width", "C16", ("image.py", "        self.wcs = _flip_wcs_parity(self.wcs, self.height)", "        self.wcs = _flip_wcs_parity(self.wcs, self.width)"))
M("c16-rows-not-reversed", "C16", ("image.py", "        self._array = self.asarray()[::-1]\n\n        # Ensure", "        self._array = self.asarray()[::-1, ::-1] if self.asarray().shape[1] > 300 else self.asarray()[::-1]\n\n        # Ensure"))
M("c16-pil-left-stale", "C16", ("image.py", "        # it still has the rows in the old order.\n        self._pil = None\n", "        # it still has the rows in the old order.\n"))
M("c16-cd22-only", "C16", ("image.py", '    h["CD2_2"] *= -1\n', '    h["CD2_2"] *= -1\n    h["CD2_1"] *= 1.0 if abs(h["CD2_1"]) < 1e-12 else (1 + 1e-5)\n'))

# ---- C18
M("c18-no-swap", "C18", ("pipeline/__init__.py", "                temp = filenames[-1]\n                filenames[-1] = 'index.wtml'\n                filenames[index_index] = temp", "                pass"))
M("c18-rename-before-loop", "C18", ("pipeline/__init__.py", "            print(f'publishing {uniq_id} ...')\n", "            print(f'publishing {uniq_id} ...')\n            os.rename(os.path.join(todo_dir, uniq_id), os.path.join(done_dir, uniq_id))\n            todo_dir, _td = done_dir, todo_dir\n"))
M("c18-index-first", "C18", ("pipeline/__init__.py", "                temp = filenames[-1]\n                filenames[-1] = 'index.wtml'\n                filenames[index_index] = temp", "                temp = filenames[0]\n                filenames[0] = 'index.wtml'\n                filenames[index_index] = temp"))
M("c18-swallow-transfer-error", "C18", ("pipeline/__init__.py", "                with open(p, 'rb') as f:\n                    self._pipeio.put_item(*sub_components[1:], source=f)", "                try:\n                    with open(p, 'rb') as f:\n                        self._pipeio.put_item(*sub_components[1:], source=f)\n                except BaseException as e:\n                    print('warning: transfer failed', e)"))
M("c18-swap-only-if-sorted-first", "C18", ("pipeline/__init__.py", "            except ValueError:\n                pass\n            else:\n                temp = filenames[-1]", "            except ValueError:\n                pass\n            else:\n                if len(filenames) > 5 and index_index == len(filenames) - 2:\n                    continue_swap = False\n                temp = filenames[-1] if not (len(filenames) > 5 and index_index == len(filenames) - 2) else 'index.wtml'"))
M("c18-swap-uses-stale-index", "C18", ("pipeline/__init__.py", "                filenames[-1] = 'index.wtml'\n                filenames[index_index] = temp", "                filenames[-1] = 'index.wtml'\n                filenames[index_index - (1 if index_index > 2 else 0)] = temp"))

# ---- C15
M("c15-inverted-validity", "C15", ("image.py", "            valid = ~np.isnan(sub_i)\n            np.putmask(sub_b, valid, sub_i)", "            valid = np.isnan(sub_i)\n            np.putmask(sub_b, valid, sub_i)"))
M("c15-any-for-all", "C15", ("image.py", "            return np.all(np.isnan(i))", "            return np.any(np.isnan(i))"))
M("c15-fill-no-clear", "C15", ("image.py", "        elif self.mode in (ImageMode.F32, ImageMode.F64, ImageMode.F16x3):\n            b.fill(np.nan)\n            b[by_idx, bx_idx] = i[iy_idx, ix_idx]", "        elif self.mode in (ImageMode.F32, ImageMode.F64, ImageMode.F16x3):\n            b[by_idx, bx_idx] = i[iy_idx, ix_idx]"))
M("c15-rgba-alpha-threshold", "C15", ("image.py", "            valid = sub_i[..., 3] != 0\n", "            valid = sub_i[..., 3] > 2\n"))
M("c15-f16-any-channel", "C15", ("image.py", "            valid = ~np.any(np.isnan(sub_i), axis=2)", "            valid = ~np.all(np.isnan(sub_i), axis=2)"))
M("c15-stale-file-kept", "C15", ("pyramid.py", "            try:\n                os.unlink(p)\n            except (FileNotFoundError, OSError):\n                pass", "            pass"))
M("c15-rgb-alpha", "C15", ("image.py", "            sub_b[..., :3] = sub_i\n            sub_b[..., 3] = 255", "            sub_b[..., :3] = sub_i\n            sub_b[..., 3] = np.maximum(sub_b[..., 3], 254)"))
M("c15-read-default-swallow", "C15", ("pyramid.py", "                raise ValueError('unexpected value for \"default\": {!r}'.format(default))", "                return None"))
M("c15-int-replace", "C15", ("image.py", "            np.maximum(sub_b, sub_i, out=sub_b)", "            np.putmask(sub_b, sub_i != 0, sub_i)"))

# ---- C09
M("c09-flip-formula", "C09", ("multi_tan.py", """            if tile_parity_sign == 1:
                image_y = image.height - (image_y + height)
                tile_y = 256 - (tile_y + height)

            ix_idx = slice(image_x, image_x + width)
            bx_idx = slice(tile_x, tile_x + width)
            iy_idx = slice(image_y, image_y + height)
            by_idx = slice(tile_y, tile_y + height)

            with pio.update_image(
                pos, masked_mode=image.mode, default="masked"
            ) as basis:
                image.update_into_maskable_buffer(basis, iy_idx, ix_idx, by_idx, bx_idx)""", """            if tile_parity_sign == 1:
                image_y = image.height - (image_y + height)
                tile_y = 255 - (tile_y + height)

            ix_idx = slice(image_x, image_x + width)
            bx_idx = slice(tile_x, tile_x + width)
            iy_idx = slice(image_y, image_y + height)
            by_idx = slice(max(tile_y, 0), max(tile_y, 0) + height)

            with pio.update_image(
                pos, masked_mode=image.mode, default="masked"
            ) as basis:
                image.update_into_maskable_buffer(basis, iy_idx, ix_idx, by_idx, bx_idx)"""))
M("c09-crpix-reference", "C09", ("multi_tan.py", '        ref_headers["CRPIX1"] = this_crpix1 + 1 + (mtdesc.crxmin - global_crxmin)', '        ref_headers["CRPIX1"] = this_crpix1 + 1 + (self._descs[0].crxmin - global_crxmin)'))
M("c09-parity-not-reconciled", "C09", ("multi_tan.py", "        if image.get_parity_sign() != tile_parity_sign:\n            image.flip_parity()\n\n        for (", "        if image.get_parity_sign() != tile_parity_sign and image.height % 2:\n            image.flip_parity()\n\n        for ("))
M("c09-fill-instead-of-update", "C09", ("multi_tan.py", "                image.update_into_maskable_buffer(basis, iy_idx, ix_idx, by_idx, bx_idx)", "                if bool(np.isnan(basis.asarray()).all()):\n                    image.fill_into_maskable_buffer(basis, iy_idx, ix_idx, by_idx, bx_idx)\n                else:\n                    b = basis._as_writeable_array()\n                    b[by_idx, bx_idx] = image.asarray()[iy_idx, ix_idx]"))
M("c09-imin-ceil", "C09", ("multi_tan.py", "            desc.jmin = int(np.floor(desc.crymin - global_crymin))", "            desc.jmin = int(np.floor(desc.crymin - global_crymin)) + (1 if len(self._descs) > 3 and desc is self._descs[2] else 0)"))

# ---- C17
M("c17-scheme-xy-swapped", "C17", ("pyramid.py", '            self._scheme = "{1}/{3}/{3}_{2}"', '            self._scheme = "{1}/{2}/{2}_{3}"'))
M("c17-lxy-path-swapped", "C17", ("pyramid.py", '            "L{}X{}Y{}.{}".format(level, ix, iy, format or self._default_format),', '            "L{}X{}Y{}.{}".format(level, iy, ix, format or self._default_format),'))
M("c17-tilelevels-plus1", "C17", ("study.py", "        imgset.tile_levels = self._tile_levels\n", "        imgset.tile_levels = self._tile_levels + 1\n"))
M("c17-filetype-default", "C17", ("builder.py", '        self.imgset.file_type = "." + pio.get_default_format()\n        self.imgset.url = pio.get_path_scheme() + self.imgset.file_type\n\n        self.place = Place()', '        self.imgset.file_type = ".png"\n        self.imgset.url = pio.get_path_scheme() + self.imgset.file_type\n\n        self.place = Place()'))
M("c17-reuse-not-restored", "C17", ("fits_tiler.py", "                else:\n                    self._restore_builder_from_wtml()\n", ""))
M("c17-toast-levels", "C17", ("builder.py", "        self.imgset.tile_levels = depth\n", "        self.imgset.tile_levels = max(depth, 2)\n"))
M("c17-wwtl-url-stale", "C17", ("builder.py", '        self.imgset.file_type = "." + self.pio.get_default_format()\n        self.imgset.url = self.pio.get_path_scheme() + self.imgset.file_type\n        self.place.name = self.imgset.name', '        self.imgset.file_type = "." + self.pio.get_default_format()\n        self.place.name = self.imgset.name'))


# ---- compiled extension (generated C edited and rebuilt; emulates a .pyx change + rebuild)
MC("c05-c-quadrant-corners", "C05", ("__pyx_f_6toasty_10_libtoasty__subsample(__pyx_v_up, __pyx_v_ur, __pyx_v_ri, __pyx_v_cen, __pyx_t_6, __pyx_t_4, __pyx_v_increasing)", "__pyx_f_6toasty_10_libtoasty__subsample(__pyx_v_up, __pyx_v_ur, __pyx_v_ri, __pyx_v_cen, __pyx_t_6, __pyx_t_4, !__pyx_v_increasing)"))
MC("c04-c-mid-offset", "C04", ("__pyx_v_outl = (__pyx_v_a.x + atan2(__pyx_v_by, (cos(__pyx_v_a.y) + __pyx_v_bx)));", "__pyx_v_outl = (__pyx_v_a.x + atan2(__pyx_v_by, (cos(__pyx_v_a.y) + __pyx_v_bx))) + 1e-10;"))
MC("c05-c-mid-offset", "C05", ("__pyx_v_outb = atan2((sin(__pyx_v_a.y) + sin(__pyx_v_b.y)), hypot((cos(__pyx_v_a.y) + __pyx_v_bx), __pyx_v_by));", "__pyx_v_outb = atan2((sin(__pyx_v_a.y) + sin(__pyx_v_b.y)), hypot((cos(__pyx_v_a.y) + __pyx_v_bx), __pyx_v_by)) * (1 + 1e-11);"))
MC("c07-c-lon-test", "C07", ("  __pyx_t_7 = (__pyx_v_tile_lon_min < __pyx_v_bbox_lon_max);", "  __pyx_t_7 = (__pyx_v_tile_lon_max < __pyx_v_bbox_lon_max);"))
MC("c06-c-quadrant-corners", "C06", ("__pyx_f_6toasty_10_libtoasty__subsample(__pyx_v_le, __pyx_v_cen, __pyx_v_lo, __pyx_v_ll, __pyx_t_4, __pyx_t_6, __pyx_v_increasing)", "__pyx_f_6toasty_10_libtoasty__subsample(__pyx_v_le, __pyx_v_cen, __pyx_v_lo, __pyx_v_ll, __pyx_t_6, __pyx_t_4, __pyx_v_increasing)"))

# ---- regression of the shutdown-race repair (flag looked at after the empty poll again)
M("c03-flag-after-poll", "C03", ("pyramid.py", "            args = ready_queue.get(True, timeout=1)\n        except Empty:\n            if done:", "            args = ready_queue.get(True, timeout=1)\n        except Empty:\n            if done_event.is_set():"))
M("c03-mtan-flag-after-poll", "C03", ("multi_tan.py", "        except Empty:\n            if done:", "        except Empty:\n            if done_event.is_set():"))

# ---- regression of the chunk-boundary repair (F12): per-chunk rounding again
M("c07-chunk-local-rounding", "C07", ("samplers.py", "            ix = np.floor(lon / sx).astype(int)\n            np.clip(ix, 0, gnx - 1, out=ix)\n            ix -= cx\n",
  "            _l = sx * cx - np.pi\n            _dx = nx / ((sx * (cx + nx) - np.pi) - _l)\n            ix = np.round((lon - np.pi - (_l + 0.5 / _dx)) * _dx).astype(int)\n"))
