"""Catalogue of small realistic regressions used to validate the monitors (selftest/run.py)."""
MUTANTS = []


def M(id, prop, *edits):
    MUTANTS.append(dict(id=id, prop=prop, edits=list(edits)))


# ---- C13
M("c13-ops-count-leaf-live", "C13", ("pyramid.py", """                if count:
                    count += 1

            riter.set_data(count)""", """                count += 1

            riter.set_data(count)"""))
M("c13-ops-closedform", "C13", ("pyramid.py", "return depth2tiles(self.depth - (self._apex.n + 1))", "return depth2tiles(self.depth - self._apex.n - 1) if self._apex.n == 0 else depth2tiles(self.depth - self._apex.n)"))
M("c13-subpyr-offset", "C13", ("pyramid.py", "y_eff = pos.y + self._apex.y * 2**pos.n", "y_eff = pos.y + self._apex.x * 2**pos.n"))
M("c13-is-subtile", "C13", ("pyramid.py", "return deeper_pos.x == shallower_pos.x and deeper_pos.y == shallower_pos.y", "return deeper_pos.x == shallower_pos.x or deeper_pos.y == shallower_pos.y"))
M("c13-ensure-levels", "C13", ("pyramid.py", "        while ipos.n >= n_before:", "        while ipos.n > n_before:"))
M("c13-setdata-slot", "C13", ("pyramid.py", "self._levels[ppos.n][2 + 2 * iy + ix] = value", "self._levels[ppos.n][2 + 2 * ix + iy] = value"))
