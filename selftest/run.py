#!/venv/bin/python
"""Mutant self-test: apply each catalogued regression to a scratch copy of the package (outside /repo and
/verif), run the property's quick check against it (VERIF_REPO) and require a VIOLATION. Not a MANIFEST check.
usage: selftest/run.py [--tests] [--tier quick] [ids or property ids ...]"""
import json
import os
import shutil
import subprocess
import sys
import tempfile
import time

V = os.path.dirname(os.path.dirname(os.path.abspath(__file__)))
sys.path.insert(0, V)
from selftest.mutants import MUTANTS  # noqa


def make_copy(m, base):
    d = os.path.join(base, m["id"])
    shutil.rmtree(d, ignore_errors=True)
    os.makedirs(d)
    shutil.copytree("/repo/toasty", os.path.join(d, "toasty"), ignore=shutil.ignore_patterns("__pycache__"))
    for f, old, new in m["edits"]:
        p = os.path.join(d, "toasty", f)
        s = open(p).read()
        if s.count(old) != 1:
            raise ValueError("mutant %s: pattern occurs %d times in %s" % (m["id"], s.count(old), f))
        open(p, "w").write(s.replace(old, new))
    if m.get("c_edits"):
        # emulate "edit the .pyx and rebuild": edit the generated C and recompile the extension into the scratch copy
        import sysconfig

        import numpy as np

        cpath = os.path.join(d, "toasty", "_libtoasty.c")
        s = open(cpath, errors="replace").read()
        for old, new in m["c_edits"]:
            if s.count(old) != 1:
                raise SystemExit("mutant %s: C pattern occurs %d times" % (m["id"], s.count(old)))
            s = s.replace(old, new)
        open(cpath, "w").write(s)
        so = [f for f in os.listdir(os.path.join(d, "toasty")) if f.startswith("_libtoasty") and f.endswith(".so")][0]
        subprocess.run(["clang-14", "-shared", "-fPIC", "-O1", "-w", "-I", sysconfig.get_paths()["include"], "-I", np.get_include(), cpath, "-o", os.path.join(d, "toasty", so)], check=True)
    return d


def main():
    args = sys.argv[1:]
    run_tests = "--tests" in args
    tier = "quick"
    if "--tier" in args:
        tier = args[args.index("--tier") + 1]
    sel = [a for a in args if not a.startswith("--") and a not in ("quick", "thorough")]
    base = tempfile.mkdtemp(prefix="vmut-")
    rows = []
    try:
        for m in MUTANTS:
            if sel and m["id"] not in sel and m["prop"] not in sel:
                continue
            try:
                d = make_copy(m, base)
            except ValueError as e:
                rows.append((m["id"], m["prop"], "STALE " + str(e), 0, None, []))
                print(rows[-1], flush=True)
                continue
            env = dict(os.environ, VERIF_REPO=d, VERIF_EVIDENCE_DIR=os.path.join(base, "ev"), VERIF_REPLAY_DIR=os.path.join(base, "rp"))
            t0 = time.time()
            r = subprocess.run([os.path.join(V, "vcheck"), m["prop"], "--tier", tier], env=env, cwd=V, capture_output=True, text=True)
            caught = r.returncode == 1 and "VIOLATION property=%s" % m["prop"] in r.stdout
            keys = [l.strip() for l in r.stdout.splitlines() if l.strip().startswith("violation key=")][:2]
            tests = None
            if run_tests:
                t = subprocess.run(["/venv/bin/python", "-m", "pytest", "-q", "-x", "-p", "no:cacheprovider", "--timeout=900", os.path.join(d, "toasty")],
                                   cwd=d, env=dict(os.environ, PYTHONPATH=d), capture_output=True, text=True)
                tests = t.stdout.strip().splitlines()[-1] if t.stdout.strip() else "?"
            rows.append((m["id"], m["prop"], "CAUGHT" if caught else "MISSED rc=%d" % r.returncode, round(time.time() - t0, 1), tests, keys))
            print(rows[-1], flush=True)
            shutil.rmtree(d, ignore_errors=True)
    finally:
        shutil.rmtree(base, ignore_errors=True)
    missed = [r for r in rows if not r[2].startswith("CAUGHT")]
    print("mutants: %d, caught %d, missed %s" % (len(rows), len(rows) - len(missed), [r[0] for r in missed]))
    return 1 if missed else 0


if __name__ == "__main__":
    sys.exit(main())
