"""Logging / fault-injecting PyramidIO (boundary history for stages whose callbacks we do not own)."""
import hashlib
import time
from contextlib import contextmanager

from toasty.pyramid import PyramidIO

from . import evlog


class InjectedFault(Exception):
    pass


def _sha(img):
    try:
        import numpy as np

        return hashlib.sha1(np.ascontiguousarray(img.asarray()).tobytes()).hexdigest()[:12]
    except Exception:
        return None


class LoggingPIO(PyramidIO):
    tag = "pio"
    fail_at = None  # dict(op=..., pos=[n,x,y], exc="RuntimeError")
    update_body_delay = 0.0
    capture = None  # optional callable(pos, image, kw) invoked at write_image

    def _maybe_fail(self, op, pos):
        f = self.fail_at
        if f and f["op"] == op and tuple(f["pos"]) == (pos.n, pos.x, pos.y):
            evlog.ev("fault_injected", op=op, pos=tuple(pos), tag=self.tag)
            exc = {"RuntimeError": RuntimeError, "OSError": OSError, "InjectedFault": InjectedFault}[f.get("exc", "RuntimeError")]
            raise exc("injected %s failure at %s" % (op, tuple(pos)))

    def read_image(self, pos, **kw):
        evlog.ev("pio_read", pos=tuple(pos), tag=self.tag, fmt=kw.get("format"))
        self._maybe_fail("read", pos)
        img = super().read_image(pos, **kw)
        evlog.ev("pio_read_ret", pos=tuple(pos), tag=self.tag, none=img is None)
        return img

    def write_image(self, pos, image, **kw):
        self._maybe_fail("write", pos)
        if self.capture is not None:
            self.capture(pos, image, kw)
        evlog.ev("pio_write", pos=tuple(pos), tag=self.tag, sha=_sha(image), mode=str(image.mode), fmt=kw.get("format"),
                 masked=bool(image.is_completely_masked()))
        r = super().write_image(pos, image, **kw)
        evlog.ev("pio_write_ret", pos=tuple(pos), tag=self.tag)
        return r

    @contextmanager
    def update_image(self, pos, **kw):
        evlog.ev("pio_update_call", pos=tuple(pos), tag=self.tag)
        self._maybe_fail("update", pos)
        with super().update_image(pos, **kw) as img:
            evlog.ev("pio_update_enter", pos=tuple(pos), tag=self.tag)
            yield img
            if self.update_body_delay:
                time.sleep(self.update_body_delay)
            evlog.ev("pio_update_body", pos=tuple(pos), tag=self.tag)
        evlog.ev("pio_update_ret", pos=tuple(pos), tag=self.tag)
