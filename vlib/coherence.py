"""Source/binary coherence guard for the compiled extension: Cython is not installed, so an edit of
_libtoasty.pyx silently has no effect on the running binary. _libtoasty.c embeds the source line next to each
generated block; if those lines differ from the current .pyx the checks that rely on compiled code are
inconclusive (they would otherwise certify a binary that was not built from the tree)."""
import os
import re

from .core import repo_root


def check():
    d = os.path.join(repo_root(), "toasty")
    c, pyx = os.path.join(d, "_libtoasty.c"), os.path.join(d, "_libtoasty.pyx")
    if not os.path.exists(pyx):
        return "no _libtoasty.pyx in %s" % d
    if not os.path.exists(c):
        return "generated _libtoasty.c is absent, cannot tell whether the binary was built from the current _libtoasty.pyx"
    src = open(pyx).read().split("\n")
    txt = open(c, errors="replace").read()
    n = 0
    for m in re.finditer(r'/\* "toasty/_libtoasty\.pyx":(\d+)\n(.*?)\*/', txt, re.S):
        ln = int(m.group(1))
        for line in m.group(2).split("\n"):
            if "# <<<<<<<<<<<<<<" in line:
                emb = line.split("# <<<<<<<<<<<<<<")[0].strip()
                if emb.startswith("* "):
                    emb = emb[2:].strip()
                cur = src[ln - 1].strip() if ln - 1 < len(src) else None
                n += 1
                if cur != emb:
                    return "_libtoasty.pyx line %d is %r but the compiled extension was generated from %r" % (ln, cur, emb)
    if n < 50:
        return "could not find embedded source lines in _libtoasty.c (%d)" % n
    return None
