"""Contract wrappers (snapshot -> call -> element-wise reference check) for the mask semantics of
Image.fill_into_maskable_buffer / update_into_maskable_buffer and for PyramidIO.write_image / read_image.
Installed by monkey-patching from the harness or from the pytest plugin (vlib/pytest_contracts.py).
Evaluations and violations are appended to a log file (call sites often run in forked workers)."""
import json
import os
import traceback

import numpy as np

LOG = None
_orig = {}


def _log(kind, **kw):
    if LOG is None:
        return
    kw["k"] = kind
    kw["pid"] = os.getpid()
    with open(LOG, "a") as f:
        f.write(json.dumps(kw, default=str) + "\n")


def _site():
    for fr in reversed(traceback.extract_stack()[:-2]):
        fn = fr.filename
        if "/toasty/" in fn and not fn.endswith("image.py"):
            return "%s:%s" % (os.path.basename(fn), fr.name)
    return "harness"


def _rows(idx, n):
    """index list selected by an indexer along an axis of length n, or None if unsupported"""
    if isinstance(idx, slice):
        return np.arange(n)[idx]
    return None


def reference_fill(src, mode_name, buf_shape, buf_dtype, iy, ix, by, bx):
    """element-wise reference of fill: returns expected buffer array or None if indexers unsupported"""
    H, W = buf_shape[:2]
    if mode_name in ("RGB", "RGBA", "U8", "I16", "I32"):
        out = np.zeros(buf_shape, buf_dtype)
    else:
        out = np.full(buf_shape, np.nan, buf_dtype)
    paired = all(isinstance(a, np.ndarray) for a in (iy, ix, by, bx))
    if paired:
        for k in range(len(iy)):
            v = src[iy[k], ix[k]]
            if mode_name == "RGB":
                out[by[k], bx[k], :3] = v
                out[by[k], bx[k], 3] = 255
            else:
                out[by[k], bx[k]] = v
        return out
    ry, rx, qy, qx = _rows(iy, src.shape[0]), _rows(ix, src.shape[1]), _rows(by, H), _rows(bx, W)
    if any(r is None for r in (ry, rx, qy, qx)) or len(ry) != len(qy) or len(rx) != len(qx):
        return None
    sub = src[np.ix_(ry, rx)]
    if mode_name == "RGB":
        out[np.ix_(qy, qx)] = np.concatenate([sub, np.full(sub.shape[:2] + (1,), 255, np.uint8)], axis=2)
    else:
        out[np.ix_(qy, qx)] = sub
    return out


def reference_update(src, mode_name, prior, iy, ix, by, bx):
    H, W = prior.shape[:2]
    ry, rx, qy, qx = _rows(iy, src.shape[0]), _rows(ix, src.shape[1]), _rows(by, H), _rows(bx, W)
    if any(r is None for r in (ry, rx, qy, qx)) or len(ry) != len(qy) or len(rx) != len(qx):
        return None
    out = prior.copy()
    sub = src[np.ix_(ry, rx)]
    cur = out[np.ix_(qy, qx)]
    if mode_name == "RGB":
        cur[..., :3] = sub
        cur[..., 3] = 255
    elif mode_name == "RGBA":
        ok = sub[..., 3] != 0
        cur[ok] = sub[ok]
    elif mode_name in ("F32", "F64"):
        ok = ~np.isnan(sub)
        cur[ok] = sub[ok]
    elif mode_name == "F16x3":
        ok = ~np.isnan(sub).any(axis=2)
        cur[ok] = sub[ok]
    else:
        cur = np.maximum(cur, sub)
    out[np.ix_(qy, qx)] = cur
    return out


def same(a, b):
    if a.shape != b.shape or a.dtype != b.dtype:
        return False
    if a.dtype.kind == "f":
        return bool(np.array_equal(a.view(np.uint8), b.view(np.uint8)) or np.array_equal(a, b, equal_nan=True))
    return bool(np.array_equal(a, b))


def _wrap_fill(self, buffer, iy_idx, ix_idx, by_idx, bx_idx):
    src = np.array(self.asarray())
    shape, dtype = buffer.asarray().shape, buffer.asarray().dtype
    r = _orig["fill"](self, buffer, iy_idx, ix_idx, by_idx, bx_idx)
    exp = reference_fill(src, self.mode.name, shape, dtype, iy_idx, ix_idx, by_idx, bx_idx)
    site = _site()
    if exp is None:
        _log("contract_skip", fn="fill", site=site)
    else:
        got = buffer.asarray()
        ok = same(np.asarray(got), exp)
        _log("contract_eval", fn="fill", site=site, mode=self.mode.name, ok=ok)
        if not ok:
            _log("contract_violation", fn="fill", site=site, mode=self.mode.name, detail="%d elements differ from the element-wise reference" % int(np.sum(~((got == exp) | ((got != got) & (exp != exp))))))
    return r


def _wrap_update(self, buffer, iy_idx, ix_idx, by_idx, bx_idx):
    src = np.array(self.asarray())
    prior = np.array(buffer.asarray())
    r = _orig["update"](self, buffer, iy_idx, ix_idx, by_idx, bx_idx)
    site = _site()
    if self.mode.name in ("U8", "I16", "I32") and (src.min() < 0 or prior.min() < 0):
        _log("contract_skip", fn="update", site=site, why="negative integers")
        return r
    exp = reference_update(src, self.mode.name, prior, iy_idx, ix_idx, by_idx, bx_idx)
    if exp is None:
        _log("contract_skip", fn="update", site=site)
    else:
        got = np.asarray(buffer.asarray())
        ok = same(got, exp)
        _log("contract_eval", fn="update", site=site, mode=self.mode.name, ok=ok)
        if not ok:
            _log("contract_violation", fn="update", site=site, mode=self.mode.name, detail="%d elements differ from the element-wise reference" % int(np.sum(~((got == exp) | ((got != got) & (exp != exp))))))
    return r


def _wrap_write_image(self, pos, image, format=None, **kw):
    masked = bool(_indep_masked(image))
    r = _orig["write_image"](self, pos, image, format=format, **kw)
    p = self.tile_path(pos, format=format or self._default_format, makedirs=False)
    exists = os.path.exists(p)
    ok = exists != masked
    _log("contract_eval", fn="write_image", site=_site(), ok=ok)
    if not ok:
        _log("contract_violation", fn="write_image", site=_site(), detail="fully undefined=%s but file exists=%s at %s" % (masked, exists, p))
    return r


def _indep_masked(image):
    a = np.asarray(image.asarray())
    m = image.mode.name
    if m in ("F32", "F64", "F16x3"):
        return np.isnan(a).all()
    if m == "RGBA":
        return (a[..., 3] == 0).all()
    return False


def install(logpath):
    global LOG
    LOG = logpath
    from toasty.image import Image
    from toasty.pyramid import PyramidIO

    if _orig:
        return
    _orig["fill"] = Image.fill_into_maskable_buffer
    _orig["update"] = Image.update_into_maskable_buffer
    _orig["write_image"] = PyramidIO.write_image
    Image.fill_into_maskable_buffer = _wrap_fill
    Image.update_into_maskable_buffer = _wrap_update
    PyramidIO.write_image = _wrap_write_image


def uninstall():
    from toasty.image import Image
    from toasty.pyramid import PyramidIO

    if not _orig:
        return
    Image.fill_into_maskable_buffer = _orig["fill"]
    Image.update_into_maskable_buffer = _orig["update"]
    PyramidIO.write_image = _orig["write_image"]
    _orig.clear()


def summarize(logpath):
    import collections

    c = collections.Counter()
    viol = []
    sites = collections.Counter()
    if os.path.exists(logpath):
        for line in open(logpath):
            try:
                r = json.loads(line)
            except ValueError:
                continue
            if r["k"] == "contract_eval":
                c["evals_" + r["fn"]] += 1
                sites["%s@%s" % (r["fn"], r["site"])] += 1
            elif r["k"] == "contract_skip":
                c["skipped_" + r["fn"]] += 1
            elif r["k"] == "contract_violation":
                viol.append(r)
    return c, sites, viol
