"""An asynchronous exception (Ctrl-C, a timeout handler that raises, MemoryError) arriving in the middle of a library call:
`interrupted(fn, k)` runs fn() and raises KeyboardInterrupt when the k-th Python function of the named toasty source file is
entered during it. Returns True when the interruption happened (fn did not complete), False when fn completed first."""
import sys


class Injected(KeyboardInterrupt):
    pass


def interrupted(fn, k, fname="toast.py"):
    n = [0]

    def tr(frame, event, arg):
        if event == "call" and frame.f_code.co_filename.endswith(fname):
            n[0] += 1
            if n[0] == k:
                raise Injected("injected interruption at call #%d in %s" % (k, fname))
        return None

    old = sys.gettrace()
    sys.settrace(tr)
    try:
        fn()
        return False
    except Injected:
        return True
    finally:
        sys.settrace(old)
