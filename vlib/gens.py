"""Seeded generators of pyramid specifications shared by C01, C03, C13, C19."""
from . import ref_quadtree as rq


def closure(leaves):
    acc = set()
    for p in leaves:
        p = tuple(p)
        while p[0] >= 1:
            acc.add(p)
            p = rq.parent(p)
    return acc


def gen_filter(R, depth):
    """returns (family, accepted list) for levels 1..depth"""
    allp = rq.all_positions(depth, 1)
    leaves = [p for p in allp if p[0] == depth]
    fam = R.choice(["leafset", "leafset", "random", "single", "allbutone", "childless", "orphans", "clustered", "empty"])
    if depth == 0:
        return "trivial", []
    if fam == "leafset":
        k = R.choice([1, 2, 3, 5, max(1, len(leaves) // 2), max(1, len(leaves) - 2)])
        acc = closure(R.sample(leaves, min(k, len(leaves))))
    elif fam == "random":
        pr = R.choice([0.3, 0.5, 0.7, 0.9])
        acc = {p for p in allp if R.random() < pr}
    elif fam == "single":
        acc = closure([R.choice(leaves)])
    elif fam == "allbutone":
        acc = set(allp)
        acc.discard(R.choice(allp))
    elif fam == "childless":
        # accepted tiles none of whose children is accepted, next to real leaves
        acc = closure(R.sample(leaves, min(R.choice([1, 2, 4]), len(leaves))))
        for _ in range(R.choice([1, 2, 4])):
            n = R.randrange(1, depth + 1) if depth >= 1 else 1
            p = (n, R.randrange(1 << n), R.randrange(1 << n))
            if n < depth and not any(c in acc for c in rq.children(p)):
                acc |= closure([p])
    elif fam == "orphans":
        acc = closure(R.sample(leaves, min(R.choice([1, 3]), len(leaves))))
        for _ in range(3):
            # accept a deep tile whose parent is rejected (pruned: must not be visited)
            p = R.choice(allp)
            if p[0] >= 2 and rq.parent(p) not in acc:
                acc.add(p)
    elif fam == "clustered":
        n0 = R.randrange(1, depth + 1)
        a = (n0, R.randrange(1 << n0), R.randrange(1 << n0))
        acc = closure([p for p in leaves if rq.is_under(p, a)])
        if R.random() < 0.5:
            acc -= {R.choice(sorted(acc))}
    else:
        acc = set()
    return fam, sorted(acc)


def gen_pyramid(R, maxdepth=4, kinds=("generic", "toast", "filtered", "filtered", "bbox"), mindepth=0, sub_p=0.5, redepth_p=0.0):
    kind = R.choice(kinds)
    depth = R.randrange(mindepth, maxdepth + 1)
    spec = dict(kind=kind, depth=depth, apex=None, accepted=None, coordsys=R.choice(["astronomical", "planetary"]))
    if kind == "filtered":
        spec["family"], spec["accepted"] = gen_filter(R, depth)
    elif kind == "bbox":
        import math

        lon0 = R.uniform(-2 * math.pi, 2 * math.pi)
        w = R.choice([0.05, 0.3, 1.0, 2.5, 7.0]) * R.uniform(0.5, 1.0)
        lat0 = R.uniform(-math.pi / 2, math.pi / 2 - 0.01)
        h = R.choice([0.05, 0.3, 1.0]) * R.uniform(0.5, 1.0)
        spec["bbox"] = [lon0, lon0 + w, lat0, min(lat0 + h, math.pi / 2)]
    if R.random() < sub_p:
        n = R.randrange(0, depth + 1)
        if n > 0:
            if kind == "filtered" and spec["accepted"] and R.random() < 0.6:
                # aim the apex at the accepted part
                c = [p for p in spec["accepted"] if p[0] == n]
                a = R.choice(c) if c else (n, R.randrange(1 << n), R.randrange(1 << n))
            else:
                a = (n, R.randrange(1 << n), R.randrange(1 << n))
            spec["apex"] = list(a)
    if redepth_p and R.random() < redepth_p:
        spec["redepth"] = R.choice([d for d in range(0, maxdepth + 2) if d != depth])
    return spec


def coordsys_of(spec):
    from toasty.toast import ToastCoordinateSystem as CS

    return CS.PLANETARY if spec.get("coordsys") == "planetary" else CS.ASTRONOMICAL


def resolve_accepted(spec):
    """accepted set for the reference model; for real lat/lon boxes the filter is evaluated on every tile
    obtained through create_single_tile (a route independent of the filtered enumeration)."""
    if spec["kind"] in ("generic", "toast"):
        return None
    if spec["kind"] == "filtered":
        return {tuple(p) for p in spec["accepted"]}
    from toasty import toast
    from toasty.pyramid import Pos
    from toasty.samplers import _latlon_tile_filter

    f = _latlon_tile_filter(*spec["bbox"])
    cs = coordsys_of(spec)
    acc = set()
    for p in rq.all_positions(spec["depth"], 1):
        if f(toast.create_single_tile(Pos(*p), coordsys=cs)):
            acc.add(p)
    return acc


def filter_object(acc, variant):
    """the same position-set filter as different kinds of callable: a lambda, a functools.partial, a bound method, and
    callable objects that are FALSY (an include-list that happens to be empty, a wrapper that counts rejections and has
    counted none): `filter or default` and `if filter:` are not tests for "no filter was given" """
    import functools

    def plain(t):
        return (int(t.pos.n), int(t.pos.x), int(t.pos.y)) in acc

    k = variant % 5
    if k == 0:
        return lambda t: (int(t.pos.n), int(t.pos.x), int(t.pos.y)) in acc
    if k == 1:
        return functools.partial(lambda a, t: (int(t.pos.n), int(t.pos.x), int(t.pos.y)) in a, acc)
    if k == 2:
        class Holder:
            def accept(self, t):
                return plain(t)

        return Holder().accept
    if k == 3:
        class IncludeList(list):  # extra positions to force in: none here, so the object is empty = falsy
            def __call__(self, t):
                return plain(t) or tuple(t.pos) in self

        return IncludeList()

    class Recording:
        def __init__(self):
            self.rejected = 0

        def __call__(self, t):
            ok = plain(t)
            self.rejected += int(not ok and False)
            return ok

        def __len__(self):
            return self.rejected  # 0: falsy

    return Recording()


def build_pyramid(spec):
    from toasty.pyramid import Pos, Pyramid

    k = spec["kind"]
    if spec.get("redepth") is not None and spec["redepth"] != spec["depth"]:
        # the object is created and USED at another depth first (counted, its leaves visited), then its documented `depth`
        # attribute ("may be changed") is set to the depth of this case
        pyr = build_pyramid(dict(spec, depth=spec["redepth"], redepth=None, apex=None))
        pyr.count_leaf_tiles()
        pyr.count_live_tiles()
        pyr.visit_leaves(lambda p, t: None, parallel=1)
        pyr.depth = spec["depth"]
        if spec.get("apex"):
            pyr.subpyramid(Pos(*spec["apex"]))
        return pyr
    if k == "generic":
        pyr = Pyramid.new_generic(spec["depth"])
    elif k == "toast":
        pyr = Pyramid.new_toast(spec["depth"], coordsys=coordsys_of(spec))
    elif k == "filtered":
        acc = {tuple(p) for p in spec["accepted"]}
        pyr = Pyramid.new_toast_filtered(spec["depth"], filter_object(acc, len(acc) + spec["depth"]), coordsys=coordsys_of(spec))
    else:
        from toasty.samplers import _latlon_tile_filter

        pyr = Pyramid.new_toast_filtered(spec["depth"], _latlon_tile_filter(*spec["bbox"]), coordsys=coordsys_of(spec))
    if spec.get("apex"):
        if spec.get("seed", 0) % 3 == 0:
            # the object is USED before it is restricted (counted, its leaves visited, a walk run): whatever it remembers
            # about its tiles from then must not survive subpyramid()
            k = (spec.get("seed", 0) // 3) % 3
            pyr.count_live_tiles()
            if k >= 1:
                pyr.visit_leaves(lambda p, t: None, parallel=1)
            if k == 2:
                pyr.walk(lambda p: None, parallel=1)
        pyr.subpyramid(Pos(*spec["apex"]))
    return pyr
