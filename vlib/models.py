"""Offline checkers over event logs and the stage runner (fork + monitor with stuck-state predicate)."""
import collections
import hashlib
import json
import os
import signal
import time

from . import evlog, instr_mp

NOPROG = ("get_call", "get_empty", "is_set", "is_set_call", "shared_read")


def analyse(recs):
    st = dict(
        owner=None, inflight=collections.Counter(), live=set(), running={}, last={}, progress=0,
        proc_run=0, proc_start=0, event_set=False, ended=False, qowner={}, unfed=collections.Counter(),
    )
    for r in recs:
        k = r["k"]
        p = r["pid"]
        if k == "stage_call":
            st["owner"] = p
        elif k in ("stage_ret", "stage_exc"):
            st["ended"] = True
        elif k == "put_call":
            st["inflight"][r["q"]] += 1
            st["unfed"][(p, r["q"])] += 1
        elif k in ("get_ret", "put_full"):
            st["inflight"][r["q"]] -= 1
            if k == "put_full":
                st["unfed"][(p, r["q"])] -= 1
        elif k == "feed":
            st["unfed"][(p, r["q"])] -= 1
        elif k == "proc_run":
            st["live"].add(p)
            st["proc_run"] += 1
        elif k == "proc_start":
            st["proc_start"] += 1
        elif k == "proc_exit":
            st["live"].discard(p)
            st["running"].pop(p, None)
            # items this process put but its feeder thread never wrote to the pipe (e.g. they could not be pickled) are lost
            for (pp, q), n in list(st["unfed"].items()):
                if pp == p and n > 0:
                    st["inflight"][q] -= n
                    st["unfed"][(pp, q)] = 0
                    st["lost_items"] = st.get("lost_items", 0) + n
        elif k == "cb_start":
            st["running"][p] = r.get("pos")
        elif k in ("cb_end", "cb_exc"):
            st["running"].pop(p, None)
        elif k == "event_set":
            st["event_set"] = True
        if k not in NOPROG:
            st["progress"] += 1
        if k != "feed":  # the feeder thread shares its process's pid; it must not mask the main thread's state
            st["last"][p] = (k, r.get("q"), r.get("child"))
    return st


def all_blocked(recs):
    """general logical deadlock over the recorded queue protocol: every live process of the stage (owner included) is
    blocked - polling an empty queue on which no put can complete, waiting in put on a full bounded queue, or joining a
    live process - no callback is running and the shutdown flag is down.  Returns a description or None."""
    owner = None
    state = {}
    live = set()
    filled = collections.Counter()
    maxsize = {}
    running = set()
    eset = False
    for r in recs:
        k, p = r["k"], r["pid"]
        if k == "stage_call":
            owner = p
            live.add(p)
        elif k in ("stage_ret", "stage_exc"):
            return None
        elif k == "q_new":
            maxsize[r["q"]] = r.get("maxsize") or 0
        elif k == "put_call":
            state[p] = ("put", r["q"])
        elif k == "put_ret":
            filled[r["q"]] += 1
            state[p] = None
        elif k == "put_full":
            state[p] = None
        elif k == "get_call":
            state[p] = ("get", r["q"], r.get("to", 1) is not None)
        elif k == "get_empty":
            state[p] = ("get", r["q"], True)
        elif k == "is_set":
            pass
        elif k == "get_ret":
            filled[r["q"]] -= 1
            state[p] = None
        elif k == "join_call":
            state[p] = ("join", r.get("child"))
        elif k == "join_ret":
            state[p] = None
        elif k == "join_thread_call":
            state[p] = ("flush", r.get("q"))
        elif k == "join_thread_ret":
            state[p] = None
        elif k == "proc_run":
            live.add(p)
            state[p] = None
        elif k == "proc_exit":
            live.discard(p)
            running.discard(p)
        elif k == "cb_start":
            running.add(p)
            state[p] = None
        elif k in ("cb_end", "cb_exc"):
            running.discard(p)
        elif k == "event_set":
            eset = True
        elif k == "feed":
            pass
        else:
            if p in state and k not in NOPROG:
                state[p] = None
    if owner is None or running or len(live) < 2:
        return None
    pending_put = collections.Counter(s[1] for p, s in state.items() if p in live and s and s[0] == "put")
    why = []
    for p in live:
        s = state.get(p)
        if not s:
            return None
        if s[0] == "get":
            if eset and s[2]:
                return None  # a timed poll: the process will wake up, see the raised flag and leave
            if filled[s[1]] > 0:
                return None
            if pending_put[s[1]] and not (maxsize.get(s[1], 0) and filled[s[1]] >= maxsize[s[1]]):
                return None
        elif s[0] == "put":
            if not (maxsize.get(s[1], 0) and filled[s[1]] >= maxsize[s[1]]):
                return None
        elif s[0] == "join":
            if s[1] not in live:
                return None
        else:
            return None
        why.append("%s:%s%s(%s)" % ("owner" if p == owner else "worker", "untimed-" if s[0] == "get" and not s[2] else "", s[0], s[1]))
    return "every live process is blocked%s: " % (" (shutdown flag raised)" if eset else "") + ", ".join(sorted(why)[:8])


def polls_after_shutdown(recs, limit=8):
    """a worker that keeps polling an EMPTY queue although it has seen the shutdown flag raised: under the protocol a worker
    leaves after at most two empty polls once the flag is up (one may have started before). Returns a description or None."""
    seen_true = collections.Counter()
    empties = collections.Counter()
    filled = collections.Counter()
    exited = set()
    for r in recs:
        k, p = r["k"], r["pid"]
        if k == "put_ret":
            filled[r["q"]] += 1
        elif k == "get_ret":
            filled[r["q"]] -= 1
            empties[p] = 0
        elif k == "is_set" and r.get("v"):
            seen_true[p] += 1
        elif k == "get_empty" and seen_true[p] and filled[r["q"]] <= 0:
            empties[p] += 1
        elif k == "proc_exit":
            exited.add(p)
    bad = [p for p, n in empties.items() if n >= limit and p not in exited]
    if bad:
        return "%d worker(s) keep polling an empty queue after having seen the shutdown flag raised (%d empty polls)" % (len(bad), max(empties[p] for p in bad))
    return None


def stuck_predicate(recs, kind):
    """None if some transition is enabled (or the stage ended); else a description dict.
    kind: 'walk' (ready/done queue protocol) or 'producer' (bounded queue + done event)."""
    st = analyse(recs)
    if st["ended"] or st["owner"] is None:
        return None
    refused = any(r["k"] == "fork_refused" for r in recs)
    if (st["proc_run"] == 0 and not refused) or st["proc_run"] < st["proc_start"]:
        return None  # workers still starting (unless the operating system refused to create them)
    ab = all_blocked(recs)
    if ab:
        return dict(progress=st["progress"], live=len(st["live"]), owner_last=(st["last"].get(st["owner"]) or ("?",))[0], why=ab)
    lo_ = st["last"].get(st["owner"])
    if lo_ and lo_[0] == "join_call" and st["event_set"]:
        pa = polls_after_shutdown(recs)
        if pa:
            return dict(progress=st["progress"], live=len(st["live"]), owner_last="join_call", why=pa)
    if lo_ and lo_[0] == "event_set" and all(st["last"].get(p, ("?",))[0] == "is_set_call" for p in st["live"]):
        # Event.set / Event.is_set take the event's internal lock for microseconds (30 ms under profile slow_isset); if the
        # owner has called set() and every live worker has called is_set() and nobody returns, the lock is held by a dead process
        return dict(progress=len(recs), live=len(st["live"]), owner_last="event_set",
                    why="owner blocked inside Event.set(): the event's lock is held by a process that no longer exists; %d live worker(s) blocked in is_set()" % len(st["live"]))
    owner = st["owner"]
    lo = st["last"].get(owner)
    if lo is None:
        return None
    live = st["live"]
    infl = st["inflight"]
    desc = dict(progress=st["progress"], live=len(live), owner_last=lo[0])
    if kind == "walk":
        if lo[0] not in NOPROG:
            return None
        dq = lo[1]
        if infl[dq] > 0 or st["running"]:
            return None
        for p in live:
            if st["last"].get(p, ("?",))[0] not in NOPROG:
                return None
        if live and any(v > 0 for q, v in infl.items() if q != dq):
            return None
        desc["why"] = "dispatcher polls an empty done queue, nothing in flight, no callback running, %d live idle workers" % len(live)
        return desc
    # producer
    if lo[0] == "put_call" and not live:
        desc["why"] = "producer blocked in put on a queue nobody reads (no live worker)"
        return desc
    if lo[0] == "join_thread_call" and not live:
        desc["why"] = "producer waits for the feeder flush but no worker is alive to drain the pipe"
        return desc
    if lo[0] == "join_call" and not st["event_set"]:
        w = lo[2]
        if w in live and st["last"].get(w, ("?",))[0] in NOPROG and all(v <= 0 for v in infl.values()):
            desc["why"] = "producer joins a worker that only cycles on an empty queue and the done flag was never raised"
            return desc
    return None


def with_dead_processes(recs):
    """a worker that was killed (SIGTERM from check_workers, SIGKILL) logs no proc_exit: look at /proc and add one"""
    started, ended = set(), set()
    for r in recs:
        if r["k"] == "proc_run":
            started.add(r["pid"])
        elif r["k"] == "proc_exit":
            ended.add(r["pid"])
    extra = []
    for p in started - ended:
        try:
            with open("/proc/%d/stat" % p) as f:
                state = f.read().rsplit(")", 1)[1].split()[0]
        except (OSError, IndexError):
            state = "X"
        if state in ("Z", "X"):
            extra.append(dict(k="proc_exit", pid=p, t=0, synthetic=True))
    return recs + extra if extra else recs


def run_stage(fn, logpath, kind, watchdog=60.0, poll=None, hostile=None):
    """Fork a child in its own session that runs fn() between stage_call/stage_ret events; monitor it.
    Returns (outcome, info): outcome in 'returned', 'raised', 'stuck', 'watchdog', 'died'.
    hostile: keyword arguments of sched.install - the stage process and all its workers are descheduled at random
    between statements of the named toasty files (each injection is logged as a 'sched' event)."""
    to = instr_mp.scaled_timeout()
    poll = poll or max(0.05, 2.5 * to)
    pid = os.fork()
    if pid == 0:
        code = 0
        try:
            os.setsid()
            if hostile:
                from . import sched

                sched.install(on_inject=lambda name, line, d: evlog.ev("sched", fn=name, line=line, ms=int(d * 1000)), **hostile)
            evlog.ev("stage_call")
            fn()
            evlog.ev("stage_ret")
        except BaseException as e:  # noqa
            try:
                evlog.ev("stage_exc", e=repr(e)[:300], etype=type(e).__name__)
            except Exception:
                pass
            code = 3
        finally:
            os._exit(code)
    t0 = time.time()
    prev = None
    outcome = None
    info = {}
    while True:
        r, status = os.waitpid(pid, os.WNOHANG)
        if r:
            code = os.waitstatus_to_exitcode(status)
            outcome = "returned" if code == 0 else ("raised" if code == 3 else "died")
            info["exit"] = code
            break
        time.sleep(poll)
        try:
            recs = evlog.read(logpath)
        except OSError:
            recs = []
        recs = with_dead_processes(recs)
        s = stuck_predicate(recs, kind)
        if s is not None and prev is not None and prev["progress"] == s["progress"] and time.time() - prev["_t"] >= 5 * to:
            outcome = "stuck"
            info.update(s)
            break
        if s is None:
            prev = None
        elif prev is None or prev["progress"] != s["progress"]:
            s["_t"] = time.time()
            prev = s
        if time.time() - t0 > watchdog:
            outcome = "watchdog"
            break
    try:
        os.killpg(pid, signal.SIGKILL)
    except (ProcessLookupError, PermissionError):
        pass
    if outcome in ("stuck", "watchdog"):
        try:
            os.waitpid(pid, 0)
        except ChildProcessError:
            pass
    info["wall"] = round(time.time() - t0, 3)
    info.pop("_t", None)
    return outcome, info


def signature(recs, kinds=("cb_start", "cb_end", "get_ret", "get_empty", "put_ret")):
    """interleaving signature: hash of the (role, event, item) sequence in log order"""
    h = hashlib.sha1()
    for r in recs:
        if r["k"] in kinds:
            h.update(("%s|%s|%s;" % (r.get("role", ""), r["k"], json.dumps(r.get("pos") or r.get("item")))).encode())
    return h.hexdigest()[:16]


def log_counters(recs):
    """generic counters reported in evidence"""
    st = analyse(recs)
    c = collections.Counter()
    c["events"] = len(recs)
    c["worker_timeouts"] = sum(1 for r in recs if r["k"] == "get_empty" and r.get("role") == "worker")
    c["put_full"] = sum(1 for r in recs if r["k"] == "put_full")
    # time-outs while work was pending: a worker get_empty while some queue had items in flight
    infl = collections.Counter()
    running = 0
    maxrun = 0
    pend_to = 0
    blocked_put = 0
    open_puts = {}
    eset = False
    for r in recs:
        k = r["k"]
        if k == "put_call":
            infl[r["q"]] += 1
            open_puts[r["pid"]] = r["t"]
        elif k == "put_ret":
            t0 = open_puts.pop(r["pid"], None)
            if t0 is not None and r["t"] - t0 > 5e6 and r.get("role") == "owner":
                blocked_put += 1
        elif k in ("get_ret", "put_full"):
            infl[r["q"]] -= 1
        elif k == "cb_start":
            running += 1
            maxrun = max(maxrun, running)
        elif k in ("cb_end", "cb_exc"):
            running -= 1
        elif k == "event_set":
            eset = True
        elif k == "get_empty" and r.get("role") == "worker":
            if infl[r["q"]] > 0 or running > 0:
                pend_to += 1
            if eset:
                c["timeouts_after_event_set"] += 1
            else:
                c["timeouts_before_event_set"] += 1
    c["timeouts_while_pending"] = pend_to
    c["max_concurrent_callbacks"] = maxrun
    c["owner_puts_delayed_gt5ms"] = blocked_put
    c["workers"] = st["proc_run"]
    c["statement_delays"] = sum(1 for r in recs if r["k"] == "sched")
    return dict(c)
