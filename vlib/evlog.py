"""Multi-process event log: one JSON line per os.write on an O_APPEND descriptor opened before fork.

Appends of < PIPE_BUF-sized lines from different processes do not interleave, and file order respects
happens-before: a write that returned before another one started is earlier in the file.
"""
import json
import os
import time

_FD = None
_PATH = None


def open_log(path):
    global _FD, _PATH
    if _FD is not None:
        try:
            os.close(_FD)
        except OSError:
            pass
    _FD = os.open(path, os.O_WRONLY | os.O_CREAT | os.O_APPEND | os.O_TRUNC, 0o644)
    _PATH = path
    return path


def open_log_append(path):
    """join an existing log from a separately started process (no truncation)"""
    global _FD, _PATH
    _FD = os.open(path, os.O_WRONLY | os.O_CREAT | os.O_APPEND, 0o644)
    _PATH = path
    return path


def close_log():
    global _FD
    if _FD is not None:
        try:
            os.close(_FD)
        except OSError:
            pass
    _FD = None


def active():
    return _FD is not None


def _default(o):
    if isinstance(o, tuple):
        return list(o)
    if isinstance(o, (set, frozenset)):
        return sorted(o)
    try:
        return o.item()
    except Exception:
        return repr(o)[:80]


def ev(kind, **kw):
    if _FD is None:
        return
    kw["k"] = kind
    kw["pid"] = os.getpid()
    kw["t"] = time.monotonic_ns()
    os.write(_FD, (json.dumps(kw, default=_default) + "\n").encode())


def read(path=None):
    recs = []
    with open(path or _PATH) as f:
        for line in f:
            line = line.strip()
            if line:
                try:
                    recs.append(json.loads(line))
                except ValueError:
                    pass
    return recs
