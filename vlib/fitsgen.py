"""Generators of FITS inputs on a common TAN grid (for multi-TAN / multi-WCS / collection checks)."""
import os

import numpy as np


def tan_header(crpix1, crpix2, scale=1e-3, crval=(50.0, 30.0), bottoms_up=False, key="", rot=None, parity_in_pc=False):
    from astropy.io import fits

    h = fits.Header()
    h["CTYPE1" + key] = "RA---TAN"
    h["CTYPE2" + key] = "DEC--TAN"
    h["CRVAL1" + key] = crval[0]
    h["CRVAL2" + key] = crval[1]
    h["CRPIX1" + key] = float(crpix1)
    h["CRPIX2" + key] = float(crpix2)
    h["CDELT1" + key] = -scale
    h["CDELT2" + key] = scale if bottoms_up else -scale
    h["CUNIT1" + key] = "deg"
    h["CUNIT2" + key] = "deg"
    if parity_in_pc:
        # the row order is expressed in the PC matrix (second column negated for bottom-up rows), CDELT is the same for both:
        # files of both row orders then pass a "same CDELT" test and can legitimately sit in one collection
        import math

        r_ = rot or 0
        c, sn = {0: (1.0, 0.0), 90: (0.0, 1.0), 180: (-1.0, 0.0), 270: (0.0, -1.0)}.get(r_ % 360, (math.cos(math.radians(r_)), math.sin(math.radians(r_))))
        f = -1.0 if bottoms_up else 1.0
        # written as a CD matrix (no CDELT): astropy normalises it to CDELT = 1 + PC for files of either row order
        del h["CDELT1" + key], h["CDELT2" + key]
        h["CD1_1" + key], h["CD1_2" + key], h["CD2_1" + key], h["CD2_2" + key] = -scale * c, -scale * (-sn * f) + 0.0, -scale * sn, -scale * c * f + 0.0
        return h
    if rot is not None:
        # rotation of the pixel grid on the sky; multiples of 90 degrees give EXACT zeros and ones
        import math

        c, sn = {0: (1.0, 0.0), 90: (0.0, 1.0), 180: (-1.0, 0.0), 270: (0.0, -1.0)}.get(rot % 360, (math.cos(math.radians(rot)), math.sin(math.radians(rot))))
        # the same sky for both row orders: reversing the rows (dy -> -dy, CDELT2 -> -CDELT2) flips the off-diagonal terms
        f = -1.0 if bottoms_up else 1.0
        h["PC1_1" + key], h["PC1_2" + key], h["PC2_1" + key], h["PC2_2" + key] = c, -sn * f + 0.0, sn * f + 0.0, c
    return h


def write_piece(path, mosaic, rect, ref, scale=1e-3, crval=(50.0, 30.0), bottoms_up=False, nan_border=0, dtype=None, rot=None, parity_in_pc=False):
    """mosaic: 2-D array in display (top-down) orientation; rect=(x0,y0,w,h); ref=(cx,cy) 0-based mosaic pixel of CRVAL."""
    from astropy.io import fits

    x0, y0, w, h = rect
    data = np.array(mosaic[y0:y0 + h, x0:x0 + w])
    if nan_border and data.dtype.kind == "f":
        b = nan_border
        m = np.zeros(data.shape, bool)
        m[:b] = m[-b:] = True
        m[:, :b] = m[:, -b:] = True
        data[m] = np.nan
    crpix1 = ref[0] - x0 + 1
    crpix2 = ref[1] - y0 + 1
    if bottoms_up:
        data = data[::-1]
        crpix2 = h + 1 - crpix2
    hdr = tan_header(crpix1, crpix2, scale, crval, bottoms_up, rot=rot, parity_in_pc=parity_in_pc)
    if dtype is not None:
        data = data.astype(dtype)
    fits.PrimaryHDU(np.ascontiguousarray(data), header=hdr).writeto(path, overwrite=True)
    return path


def paste(mosaic_shape, pieces, dtype=np.float32):
    """reference mosaic: paste top-down pieces [(rect, array_topdown)] in order, defined pixels win, NaN elsewhere"""
    out = np.full(mosaic_shape, np.nan, dtype=dtype)
    for (x0, y0, w, h), arr in pieces:
        sub = out[y0:y0 + h, x0:x0 + w]
        ok = ~np.isnan(arr)
        sub[ok] = arr[ok]
    return out


def bundle(paths, out):
    """the pieces as extensions 1..n of ONE multi-extension file; returns (paths, hdu_index) for SimpleFitsCollection"""
    from astropy.io import fits

    hl = [fits.PrimaryHDU()]
    for p in paths:
        with fits.open(p) as h:
            hl.append(fits.ImageHDU(h[0].data.copy(), header=h[0].header.copy()))
    fits.HDUList(hl).writeto(out, overwrite=True)
    return [out] * len(paths), list(range(1, len(paths) + 1))
