"""Instrumented multiprocessing: in-place patches of Queue / BaseProcess / Event methods in the harness
process (inherited by forked workers), logging to vlib.evlog, applying a delay profile and scaling
time-outs (time dilation). See DESIGN.md 2.2 and appendix A.1.
"""
import hashlib
import multiprocessing.process as mpp
import multiprocessing.queues as mpq
import multiprocessing.sharedctypes as msc
import multiprocessing.synchronize as mps
import os
import random
import time
from queue import Empty, Full

from . import evlog

SCALE = 0.02
PROFILES = ["natural", "jitter", "straggler", "slow_dispatcher", "slow_feeder", "slow_workers", "late_start", "burst", "pct", "late_check", "stall", "slow_isset", "heavy_tail", "one_late"]

_S = dict(installed=False, profile="natural", seed=0, scale=SCALE, qn=0, orig={}, stage_pid=None)
_rng = [None, None]


def rng():
    if _rng[0] != os.getpid():
        _rng[0] = os.getpid()
        _rng[1] = random.Random("%s/%s" % (_S["seed"], os.getpid()))
    return _rng[1]


def _h(*a):
    return int(hashlib.sha1(repr(a).encode()).hexdigest()[:8], 16)


def summ(item):
    """JSON-able summary of a queue item"""
    try:
        if isinstance(item, tuple) and hasattr(item, "_fields") and item._fields == ("n", "x", "y"):
            return [int(item.n), int(item.x), int(item.y)]
        if isinstance(item, tuple) and len(item) >= 1:
            f = item[0]
            if isinstance(f, tuple) and hasattr(f, "_fields") and f._fields == ("n", "x", "y"):
                return [int(f.n), int(f.x), int(f.y)]
            cid = getattr(f, "collection_id", None)
            if cid is not None:
                return os.path.basename(str(cid))
        if isinstance(item, (int, str)):
            return item
    except Exception:
        pass
    return repr(item)[:60]


def scaled_timeout():
    """one scaled queue time-out of the 1-second polls used by toasty"""
    return 1.0 * _S["scale"]


def _role(q):
    return "owner" if os.getpid() == getattr(q, "_vq_owner", None) else "worker"


def delay(point, role=None):
    """apply the delay profile at a hook point"""
    p = _S["profile"]
    if p in ("natural", "burst", "straggler", "heavy_tail") or (p == "one_late" and point != "run"):
        return
    r = rng()
    to = scaled_timeout()
    if p == "jitter":
        if r.random() < 0.5:
            time.sleep(r.random() * 0.01)
    elif p == "slow_dispatcher":
        if role == "owner" and point in ("after_get", "put"):
            time.sleep(to * (2 + r.random()))
    elif p == "slow_feeder":
        if point == "feeder":
            time.sleep(0.03 + 0.03 * r.random())
    elif p == "slow_workers":
        if role == "worker" and point == "after_get":
            time.sleep(0.02 + 0.03 * r.random())
    elif p == "late_start":
        if point == "run":
            time.sleep(3 * to + 0.02 * r.random())
    elif p == "one_late":
        # ONE worker (the second or third that was started) begins to run only when its siblings are at work: it waits
        # until the shared log shows two items received by others (logical, not wall-clock: robust on a loaded machine)
        if point == "run" and _S.get("start_index") == 2 + _S["seed"] % 2:
            t0 = time.time()
            me = os.getpid()
            while time.time() - t0 < 3.0:
                try:
                    n = sum(1 for e in evlog.read() if e["k"] == "get_ret" and e["pid"] != me and e.get("role") == "worker")
                except OSError:
                    break
                if n >= 2:
                    break
                time.sleep(0.005)
            time.sleep(to * 3 * r.random())
    elif p == "late_check":
        # a worker is descheduled between its receive time-out and its look at the shutdown flag; the producer is slow,
        # so that workers do time out while items are still to come
        if point == "after_empty" and role == "worker":
            time.sleep(0.03 + 0.05 * r.random())
        elif role == "owner" and point == "put":
            time.sleep(to * (1.5 + r.random()))
    elif p == "stall":
        # the producer / dispatcher is held up for many receive time-outs in a row (expensive filter, swapped-out parent,
        # slow image load) a few times per run; workers sit idle meanwhile
        if role == "owner" and point in ("put", "after_get"):
            st = _S.setdefault("stall_%d" % os.getpid(), dict(n=0, at={r.choice([1, 2]), r.choice([3, 4, 5])}))
            st["n"] += 1
            if st["n"] in st["at"]:
                time.sleep(to * (12 + 20 * r.random()))
    elif p == "pct":
        # random priority per process, a few random priority changes
        st = _S.setdefault("pct_%d" % os.getpid(), dict(rank=r.randrange(6), n=0, changes=sorted(r.sample(range(1, 200), 3))))
        st["n"] += 1
        if st["changes"] and st["n"] >= st["changes"][0]:
            st["changes"].pop(0)
            st["rank"] = r.randrange(6)
        time.sleep(0.002 * st["rank"])


def cb_delay(pos, kind="walk"):
    """delay inside a monitoring callback, per profile. pos is a (n,x,y) tuple"""
    p = _S["profile"]
    r = rng()
    if p == "straggler":
        par = (pos[0] - 1, pos[1] >> 1, pos[2] >> 1)
        idx = 2 * (pos[2] & 1) + (pos[1] & 1)
        if _h(_S["seed"], par) % 4 == idx:
            time.sleep(0.03 + 0.03 * r.random())
    elif p == "jitter":
        if r.random() < 0.7:
            time.sleep(r.random() * 0.02)
    elif p == "pct":
        delay("cb")
    elif p == "heavy_tail":
        # callback durations with a heavy tail: most take a millisecond, a quarter take several receive time-outs
        if r.random() < 0.25:
            time.sleep(scaled_timeout() * (1.5 + 3 * r.random()))
        else:
            time.sleep(r.random() * 0.002)
    elif p in ("natural", "slow_dispatcher", "late_start", "stall", "slow_isset", "one_late"):
        time.sleep(r.random() * 0.004)
    elif p == "slow_workers":
        time.sleep(0.005 + r.random() * 0.01)


# ------------------------------------------------------------------------------------------ patches


def _q_init(self, *a, **k):
    _S["orig"]["q_init"](self, *a, **k)
    _S["qn"] += 1
    self._vq = _S["qn"]
    self._vq_owner = os.getpid()
    evlog.ev("q_new", q=self._vq, maxsize=getattr(self, "_maxsize", None))


def _q_put(self, obj, block=True, timeout=None):
    q = getattr(self, "_vq", 0)
    role = _role(self)
    evlog.ev("put_call", q=q, item=summ(obj), role=role)
    delay("put", role)
    try:
        r = _S["orig"]["q_put"](self, obj, block, None if timeout is None else timeout * _S["scale"])
    except Full:
        evlog.ev("put_full", q=q, role=role)
        raise
    evlog.ev("put_ret", q=q, role=role)
    return r


def _q_get(self, block=True, timeout=None):
    q = getattr(self, "_vq", 0)
    role = _role(self)
    evlog.ev("get_call", q=q, role=role, to=(timeout if block else 0))
    delay("before_get", role)
    try:
        r = _S["orig"]["q_get"](self, block, None if timeout is None else timeout * _S["scale"])
    except Empty:
        evlog.ev("get_empty", q=q, role=role)
        delay("after_empty", role)
        raise
    evlog.ev("get_ret", q=q, item=summ(r), role=role)
    if role == "worker" and _S.get("kill_on_item") is not None and summ(r) == _S["kill_on_item"]:
        # the worker that received this item dies of a signal before it can process it (OOM killer)
        import signal

        evlog.ev("worker_killed", item=summ(r))
        os.kill(os.getpid(), signal.SIGKILL)
        time.sleep(5)
    delay("after_get", role)
    return r


def _q_reset(self, after_fork=False):
    _S["orig"]["q_reset"](self, after_fork)
    raw = self._send_bytes
    me = self

    def send_bytes(obj, *a, **k):
        delay("feeder")
        evlog.ev("feed", q=getattr(me, "_vq", 0), n=len(obj))
        return raw(obj, *a, **k)

    self._send_bytes = send_bytes


def _q_close(self):
    evlog.ev("close", q=getattr(self, "_vq", 0))
    return _S["orig"]["q_close"](self)


def _q_join_thread(self):
    evlog.ev("join_thread_call", q=getattr(self, "_vq", 0))
    r = _S["orig"]["q_join_thread"](self)
    evlog.ev("join_thread_ret", q=getattr(self, "_vq", 0))
    return r


def _p_run(self):
    evlog.ev("proc_run")
    delay("run")
    try:
        _S["orig"]["p_run"](self)
    except BaseException as e:
        evlog.ev("proc_exit", exc=repr(e)[:200])
        raise
    evlog.ev("proc_exit")


def _p_start(self):
    _S["start_index"] = _S.get("start_index", 0) + 1  # inherited by the child: its position in the start order
    r = _S["orig"]["p_start"](self)
    evlog.ev("proc_start", child=self.pid)
    return r


def _p_join(self, timeout=None):
    evlog.ev("join_call", child=self.pid)
    r = _S["orig"]["p_join"](self, None if timeout is None else timeout * _S["scale"])
    evlog.ev("join_ret", child=self.pid, alive=self.exitcode is None)
    return r


def _e_set(self):
    evlog.ev("event_set")
    r = _S["orig"]["e_set"](self)
    evlog.ev("event_set_ret")
    return r


def _e_is_set(self):
    evlog.ev("is_set_call")
    if _S["profile"] == "slow_isset" and mpp.current_process().name != "MainProcess":
        # a worker is descheduled inside Event.is_set, i.e. while it holds the event's internal lock (same statements as
        # CPython's Event.is_set, with a pause after the lock is taken)
        with self._cond:
            time.sleep(0.01 + 0.02 * rng().random())
            if self._flag.acquire(False):
                self._flag.release()
                r = True
            else:
                r = False
        evlog.ev("is_set", v=r)
        return r
    r = _S["orig"]["e_is_set"](self)
    evlog.ev("is_set", v=bool(r))
    return r


def _sv_get(self):
    v = _S["orig"]["sv_prop"].fget(self)
    evlog.ev("shared_read", v=v if isinstance(v, (int, float)) else None)
    if _S["profile"] != "natural" and mpp.current_process().name != "MainProcess":
        # a worker is descheduled between reading a fork-shared value and acting on it (or writing it back)
        time.sleep(0.004 + 0.012 * rng().random())
    return v


def _sv_set(self, value):
    _S["orig"]["sv_prop"].fset(self, value)
    evlog.ev("shared_write", v=value if isinstance(value, (int, float)) else None)


def install(profile="natural", seed=0, scale=SCALE):
    _S.update(profile=profile, seed=seed, scale=scale, qn=0, start_index=0, kill_on_item=None)
    for k in [k for k in _S if k.startswith("pct_") or k.startswith("stall_")]:
        del _S[k]
    if _S["installed"]:
        return
    o = _S["orig"]
    Q = mpq.Queue
    o.update(
        q_init=Q.__init__, q_put=Q.put, q_get=Q.get, q_reset=Q._reset, q_close=Q.close, q_join_thread=Q.join_thread,
        p_run=mpp.BaseProcess.run, p_start=mpp.BaseProcess.start, p_join=mpp.BaseProcess.join, e_set=mps.Event.set, e_is_set=mps.Event.is_set,
        sv_prop=msc.Synchronized.value,
    )
    msc.Synchronized.value = property(_sv_get, _sv_set)
    Q.__init__ = _q_init
    Q.put = _q_put
    Q.get = _q_get
    Q._reset = _q_reset
    Q.close = _q_close
    Q.join_thread = _q_join_thread
    mpp.BaseProcess.run = _p_run
    mpp.BaseProcess.start = _p_start
    mpp.BaseProcess.join = _p_join
    mps.Event.set = _e_set
    mps.Event.is_set = _e_is_set
    _S["installed"] = True


def uninstall():
    if not _S["installed"]:
        return
    o = _S["orig"]
    Q = mpq.Queue
    Q.__init__ = o["q_init"]
    Q.put = o["q_put"]
    Q.get = o["q_get"]
    Q._reset = o["q_reset"]
    Q.close = o["q_close"]
    Q.join_thread = o["q_join_thread"]
    mpp.BaseProcess.run = o["p_run"]
    mpp.BaseProcess.start = o["p_start"]
    mpp.BaseProcess.join = o["p_join"]
    mps.Event.set = o["e_set"]
    mps.Event.is_set = o["e_is_set"]
    msc.Synchronized.value = o["sv_prop"]
    _S["installed"] = False
