"""Generators, independent readers/writers and the reference 2x2 reduction for tile pyramids."""
import os

import numpy as np

DT = dict(F32=np.float32, F64=np.float64, U8=np.uint8, I16=np.int16, I32=np.int32, F16x3=np.float16)
FMT_MODES = {
    "png": ["RGB", "RGBA"],
    "npy": ["F32", "F64", "U8", "I16", "I32", "F16x3", "RGB", "RGBA"],
    "fits": ["F32", "F64", "U8", "I16", "I32"],
    "jpg": ["RGB"],
}
BOTTOM_UP = {"fits"}


def tile_relpath(p, fmt):
    n, x, y = p
    return os.path.join(str(n), str(y), "%d_%d.%s" % (y, x, fmt))


def gen_tile(rng, mode, pattern):
    """a 256x256 tile in display orientation with an undefined-pixel pattern"""
    if mode in ("RGB", "RGBA"):
        a = rng.integers(0, 256, (256, 256, 4 if mode == "RGBA" else 3), dtype=np.uint8)
        if mode == "RGBA":
            a[..., 3] = rng.choice(np.array([0, 1, 3, 128, 254, 255], dtype=np.uint8), (256, 256), p=[0.1, 0.05, 0.05, 0.1, 0.1, 0.6])
            _apply_pattern(rng, a, pattern, lambda m: a.__setitem__((m, 3), 0))
        return a
    if mode == "F16x3":
        a = rng.uniform(0.05, 4.0, (256, 256, 3)).astype(np.float16)
        _apply_pattern(rng, a, pattern, lambda m: a.__setitem__(m, np.nan))
        return a
    dt = DT[mode]
    if np.dtype(dt).kind == "f":
        scale = rng.choice([1.0, 1e-3, 1e6])
        a = (rng.normal(size=(256, 256)) * scale + rng.choice([0.0, 5.0 * scale])).astype(dt)
        k = rng.random()
        if k < 0.12:
            a[:] = np.inf  # defined, but no finite value at all (only NaN means undefined)
        elif k < 0.2:
            a[rng.random((256, 256)) < 0.5] = -np.inf
        _apply_pattern(rng, a, pattern, lambda m: a.__setitem__(m, np.nan))
        return a
    # full dynamic range of the type in half of the tiles (means of large 32-bit values are not exact in float32)
    hi = int(np.iinfo(dt).max) if rng.random() < 0.5 else min(int(np.iinfo(dt).max), 30000)
    lo = 0  # zero means undefined for integer tiles and updates keep the larger value: negative data are outside the statements
    a = rng.integers(lo, hi, (256, 256), dtype=np.int64).astype(dt)
    _apply_pattern(rng, a, pattern, lambda m: a.__setitem__(m, 0))
    return a


def _apply_pattern(rng, a, pattern, undef):
    m = np.zeros((256, 256), bool)
    if pattern == "random":
        m = rng.random((256, 256)) < 0.3
    elif pattern == "blocks":
        b = rng.random((128, 128)) < 0.4
        m = np.repeat(np.repeat(b, 2, 0), 2, 1)  # whole 2x2 blocks undefined
    elif pattern == "quadrant":
        q = rng.integers(0, 4)
        m[(q // 2) * 128:(q // 2) * 128 + 128, (q % 2) * 128:(q % 2) * 128 + 128] = True
    elif pattern == "allbutone":
        m[:] = True
        m[rng.integers(0, 256), rng.integers(0, 256)] = False
    elif pattern == "all":
        m[:] = True
    elif pattern == "rows":
        m[rng.integers(0, 256, 40)] = True
    if m.any():
        undef(m)


def write_tile(base, p, fmt, arr):
    """independent writer: arr is in display orientation"""
    path = os.path.join(base, tile_relpath(p, fmt))
    os.makedirs(os.path.dirname(path), exist_ok=True)
    if fmt == "npy":
        np.save(path, arr)
    elif fmt == "fits":
        from astropy.io import fits

        fits.writeto(path, np.ascontiguousarray(arr[::-1]), overwrite=True)
    else:
        from PIL import Image as PI

        PI.fromarray(arr).save(path, format="PNG" if fmt == "png" else "JPEG")
    return path


def write_tile_toasty(pio, p, fmt, arr):
    from toasty.image import Image
    from toasty.pyramid import Pos

    a = arr[::-1] if fmt in BOTTOM_UP else arr
    pio.write_image(Pos(*p), Image.from_array(np.ascontiguousarray(a), default_format=fmt), format=fmt)


def read_tile(base, p, fmt):
    """independent reader -> array in display orientation, or None"""
    path = os.path.join(base, tile_relpath(p, fmt))
    if not os.path.exists(path):
        return None
    if fmt == "npy":
        return np.load(path)
    if fmt == "fits":
        from astropy.io import fits

        a = np.array(fits.getdata(path))
        return a.astype(a.dtype.newbyteorder("="))[::-1]
    from PIL import Image as PI

    a = np.asarray(PI.open(path))
    if a.ndim == 2:  # an 8-bit greyscale tile: the same colour in the three channels, every pixel defined
        a = np.repeat(a[..., None], 3, axis=-1)
    return a


def list_tiles(base, fmt):
    out = set()
    for root, _, fs in os.walk(base):
        for f in fs:
            if f.endswith("." + fmt) and "_" in f:
                try:
                    n = int(os.path.basename(os.path.dirname(root)))
                    y, x = f[: -len(fmt) - 1].split("_")
                    out.add((n, int(x), int(y)))
                except ValueError:
                    pass
    return out


def to_maskable(arr):
    """child array -> maskable representation used in the mosaic (RGB gets an opaque alpha channel)"""
    if arr.ndim == 3 and arr.shape[2] == 3 and arr.dtype == np.uint8:
        out = np.empty(arr.shape[:2] + (4,), np.uint8)
        out[..., :3] = arr
        out[..., 3] = 255
        return out
    return arr


def undefined_like(arr, shape):
    if arr.dtype.kind == "f":
        return np.full(shape + arr.shape[2:], np.nan, arr.dtype)
    return np.zeros(shape + arr.shape[2:], arr.dtype)


def ref_parent(children):
    """children: dict {(i,j): array or None} in display orientation, (i,j) = (x offset, y offset).
    Returns (mosaic 512x512, exact float64 mean, defined mask of the parent, block magnitude) or None if no child."""
    proto = next((to_maskable(c) for c in children.values() if c is not None), None)
    if proto is None:
        return None
    mos = undefined_like(proto, (512, 512))
    for (i, j), c in children.items():
        if c is None:
            continue
        c = to_maskable(c)
        sub = mos[j * 256:(j + 1) * 256, i * 256:(i + 1) * 256]
        sub[...] = c
        if c.ndim == 3 and c.shape[2] == 4:
            # a fully transparent pixel is undefined: its hidden colour does not take part (undefined = 0,0,0,0)
            sub[c[..., 3] == 0] = 0
    blocks = mos.reshape((256, 2, 256, 2) + mos.shape[2:]).astype(np.float64)
    if mos.dtype.kind == "f":
        cnt = (~np.isnan(blocks)).sum(axis=(1, 3))
        s = np.where(np.isnan(blocks), 0.0, blocks).sum(axis=(1, 3))
        with np.errstate(invalid="ignore", divide="ignore"):
            mean = s / cnt
        mag = np.nanmax(np.abs(np.where(np.isnan(blocks), 0.0, blocks)), axis=(1, 3))
        defined = cnt > 0
        if mos.ndim == 3:
            pix_def = defined.all(axis=-1)
        else:
            pix_def = defined
        return mos, mean, pix_def, mag
    mean = blocks.mean(axis=(1, 3))
    mag = np.abs(blocks).max(axis=(1, 3))
    if mos.ndim == 3:
        pix_def = np.ones(mean.shape[:2], bool)  # decided on the produced alpha by the caller
    else:
        pix_def = np.ones(mean.shape, bool)
    return mos, mean, pix_def, mag


def compare_parent(got, ref):
    """got: produced parent (display orientation, maskable form); ref from ref_parent. Returns problem string or None"""
    mos, mean, pix_def, mag = ref
    if got.shape != mean.shape:
        return "shape %s, expected %s" % (got.shape, mean.shape)
    if (got.dtype.kind, got.dtype.itemsize) != (mos.dtype.kind, mos.dtype.itemsize):
        return "dtype %s, expected %s" % (got.dtype, mos.dtype)
    if mos.dtype.kind == "f":
        gn = np.isnan(got)
        rn = np.isnan(mean)
        if (gn != rn).any():
            idx = np.argwhere(gn != rn)[0]
            return "%d pixels defined/undefined contrary to the NaN-mean (first %s: got %s, mean of block %s)" % (int((gn != rn).sum()), idx.tolist(), got[tuple(idx)], mean[tuple(idx)])
        eps = float(np.finfo(mos.dtype).eps)
        g64 = got.astype(np.float64)
        same_inf = np.isinf(g64) & np.isinf(mean) & (np.sign(g64) == np.sign(mean))
        with np.errstate(invalid="ignore", over="ignore"):
            # values beyond the dtype's range overflow to inf when cast: accept
            lim = float(np.finfo(mos.dtype).max)
            same_inf |= np.isinf(g64) & (np.abs(mean) > lim) & (np.sign(g64) == np.sign(mean))
            err = np.abs(np.where(gn | same_inf, 0, g64 - np.where(rn | same_inf, 0, mean)))
        err = np.where(np.isnan(err), np.inf, err)
        tol = 4 * eps * np.maximum(np.where(np.isfinite(mag), mag, 0), np.finfo(mos.dtype).tiny) + 1e-300
        if (err > tol).any():
            idx = np.argwhere(err > tol)[0]
            return "%d pixels differ from the NaN-mean of their 2x2 block (first %s: got %r, expected %r)" % (int((err > tol).sum()), idx.tolist(), got[tuple(idx)], mean[tuple(idx)])
        return None
    err = np.abs(got.astype(np.float64) - mean)
    if (err >= 1).any():
        idx = np.argwhere(err >= 1)[0]
        return "%d values differ from the mean of the four stored values by >= 1 (first %s: got %r, mean %r)" % (int((err >= 1).sum()), idx.tolist(), got[tuple(idx)], mean[tuple(idx)])
    return None


def entirely_undefined(arr):
    if arr.dtype.kind == "f":
        return bool(np.isnan(arr).all())
    if arr.ndim == 3 and arr.shape[2] == 4:
        return bool((arr[..., 3] == 0).all())
    return False
