"""Re-entrancy of query functions: the same calls made concurrently from several threads of one process must give what they
give one after the other.  (The code under test is numpy-heavy: the GIL is released inside numpy and at the shortened switch
interval, so calls genuinely interleave.)"""
import random
import sys
import threading


def concurrent_vs_serial(calls, same, nthreads=4, rounds=3, seed=0, budget_s=4.0):
    """calls: list of zero-argument callables; same(a, b) -> bool.  Returns (n_concurrent_calls, mismatches) where mismatches is
    a list of (call index, round).  Exceptions raised in a thread count as mismatches."""
    import time

    ref = [c() for c in calls]
    bad = []
    done = [0]
    lock = threading.Lock()
    old = sys.getswitchinterval()
    sys.setswitchinterval(1e-5)
    t_end = time.time() + budget_s
    try:
        def work(tid):
            R = random.Random("%s/%s" % (seed, tid))
            for rnd in range(rounds):
                order = list(range(len(calls)))
                R.shuffle(order)
                for i in order:
                    if time.time() > t_end or len(bad) > 20:
                        return
                    try:
                        got = calls[i]()
                        ok = same(got, ref[i])
                    except Exception as e:  # noqa
                        ok = False
                    with lock:
                        done[0] += 1
                        if not ok:
                            bad.append((i, rnd))

        ths = [threading.Thread(target=work, args=(t,)) for t in range(nthreads)]
        for t in ths:
            t.start()
        for t in ths:
            t.join()
    finally:
        sys.setswitchinterval(old)
    return done[0], bad
