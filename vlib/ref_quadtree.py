"""First-principles model of which positions a pyramid visits. Shares no code with toasty.

A pyramid is (depth, kind, accepted, apex): kind in generic/toast/filtered; `accepted` is the set of
positions (n>=1) a filter accepts (None = everything); apex a position (n,x,y).
A position at level>=1 is reachable iff it and all its ancestors at level>=1 are accepted
(the filtered descent prunes a subtree as soon as its root is rejected); level 0 is always reachable.
"""


def parent(p):
    return (p[0] - 1, p[1] >> 1, p[2] >> 1)


def children(p):
    n, x, y = p
    return [(n + 1, 2 * x, 2 * y), (n + 1, 2 * x + 1, 2 * y), (n + 1, 2 * x, 2 * y + 1), (n + 1, 2 * x + 1, 2 * y + 1)]


def is_under(p, a):
    """p equal to or a descendant of a"""
    if p[0] < a[0]:
        return False
    s = p[0] - a[0]
    return (p[1] >> s) == a[1] and (p[2] >> s) == a[2]


def reachable(p, accepted):
    if accepted is None:
        return True
    while p[0] >= 1:
        if p not in accepted:
            return False
        p = parent(p)
    return True


def leaves(depth, accepted=None, apex=(0, 0, 0)):
    if apex[0] > depth:
        raise ValueError
    out = set()
    s = depth - apex[0]
    for dx in range(1 << s):
        for dy in range(1 << s):
            p = (depth, (apex[1] << s) + dx, (apex[2] << s) + dy)
            if reachable(p, accepted):
                out.add(p)
    return out


def live_parents(depth, accepted=None, apex=(0, 0, 0)):
    out = set()
    for p in leaves(depth, accepted, apex):
        while p != tuple(apex):
            p = parent(p)
            out.add(p)
    return out


def closed_counts(depth, apex_n):
    """closed forms without filter: (leaves, live, ops)"""
    d = depth - apex_n
    nl = 4 ** d
    live = (4 ** (d + 1) - 1) // 3
    return nl, live, live - nl


def all_positions(depth, start=0):
    return [(n, x, y) for n in range(start, depth + 1) for y in range(1 << n) for x in range(1 << n)]
