"""Independent TOAST reference built from the documentation only (octahedron + unit-vector midpoints).

The 3x3 vertex grid of the TOAST square is [[S,T,S],[L,N,R],[S,B,S]] (row 0 on top): north pole in the
centre, south pole at the four corners, equator points at the mid-sides: R = lon0, T = lon0+90, L = lon0+180,
B = lon0+270 (counter-clockwise), lon0 = 0 for sky maps and 180 for planetary maps. Every cell is split by the
great-circle midpoints of its edges and the midpoint of one diagonal: the one joining the two equator
vertices of its level-1 quadrant ("increasing" = LL-UR diagonal for the top-left and bottom-right quadrants).
Shares no code with toasty; midpoints are normalised vector sums, not the (lon,lat) formula.
"""
import numpy as np


def xyz(lon, lat):
    lon = np.asarray(lon, dtype=float)
    lat = np.asarray(lat, dtype=float)
    cl = np.cos(lat)
    return np.stack([cl * np.cos(lon), cl * np.sin(lon), np.sin(lat)], axis=-1)


def lonlat(v):
    v = np.asarray(v, dtype=float)
    return np.arctan2(v[..., 1], v[..., 0]), np.arcsin(np.clip(v[..., 2], -1, 1))


def unit(v):
    return v / np.linalg.norm(v, axis=-1, keepdims=True)


def level0_vertices(planetary=False):
    lon0 = np.pi if planetary else 0.0
    N = np.array([0.0, 0.0, 1.0])
    S = np.array([0.0, 0.0, -1.0])
    R, T, L, B = [xyz(lon0 + k * np.pi / 2, 0.0) for k in range(4)]
    # exact unit vectors for the equator points (avoid 6e-17 residues)
    R, T, L, B = [np.round(p, 15) for p in (R, T, L, B)]
    return np.array([[S, T, S], [L, N, R], [S, B, S]])


INC0 = np.array([[True, False], [False, True]])


def refine(V, inc):
    """(k+1,k+1,3) vertex grid, (k,k) orientation -> (2k+1,2k+1,3), (2k,2k)"""
    k = V.shape[0] - 1
    W = np.empty((2 * k + 1, 2 * k + 1, 3))
    W[::2, ::2] = V
    W[::2, 1::2] = unit(V[:, :-1] + V[:, 1:])
    W[1::2, ::2] = unit(V[:-1, :] + V[1:, :])
    ul, ur, ll, lr = V[:-1, :-1], V[:-1, 1:], V[1:, :-1], V[1:, 1:]
    W[1::2, 1::2] = np.where(inc[..., None], unit(ll + ur), unit(ul + lr))
    return W, np.repeat(np.repeat(inc, 2, axis=0), 2, axis=1)


_cache = {}


def vertex_grid(depth, planetary=False):
    """vertex grid of the whole square at `depth` (depth>=1): cell (y,x) = tile (depth,x,y) with corners
    UL=V[y,x], UR=V[y,x+1], LR=V[y+1,x+1], LL=V[y+1,x]"""
    key = (depth, bool(planetary))
    if key not in _cache:
        if depth == 1:
            _cache[key] = (level0_vertices(planetary), INC0.copy())
        else:
            V, inc = vertex_grid(depth - 1, planetary)
            _cache[key] = refine(V, inc)
    return _cache[key]


def tile_corners(pos, planetary=False):
    """(UL, UR, LR, LL) unit vectors and orientation of one tile by descending from level 1 (any depth)"""
    n, x, y = pos
    V = level0_vertices(planetary)
    ix, iy = (x >> (n - 1)) & 1, (y >> (n - 1)) & 1
    G = V[iy:iy + 2, ix:ix + 2].copy()
    inc = bool(INC0[iy, ix])
    for lev in range(2, n + 1):
        W, _ = refine(G, np.array([[inc]]))
        ix, iy = (x >> (n - lev)) & 1, (y >> (n - lev)) & 1
        G = W[iy:iy + 2, ix:ix + 2].copy()
    return (G[0, 0], G[0, 1], G[1, 1], G[1, 0]), inc


def pixel_centres(corners, inc, levels=8):
    """(2^levels, 2^levels, 3) centres of the sub-tiles `levels` deeper, row i col j = sub-tile (x*2^l+j, y*2^l+i)"""
    ul, ur, lr, ll = corners
    G = np.array([[ul, ur], [ll, lr]], dtype=float)
    I = np.array([[bool(inc)]])
    for _ in range(levels):
        G, I = refine(G, I)
    a, b, c, d = G[:-1, :-1], G[:-1, 1:], G[1:, :-1], G[1:, 1:]
    return np.where(I[..., None], unit(c + b), unit(a + d))


def tile_centre(corners, inc):
    ul, ur, lr, ll = corners
    return unit(ll + ur) if inc else unit(ul + lr)


def signed_edge_distances(corners, p):
    """signed angular distances (rad) of point(s) p (...,3) to the four great-circle edges; >=0 inside"""
    c = np.array(corners, dtype=float)
    cen = unit(c.sum(axis=0))
    out = []
    for i in range(4):
        a, b = c[i], c[(i + 1) % 4]
        nrm = np.cross(a, b)
        ln = np.linalg.norm(nrm)
        if ln < 1e-300:
            out.append(np.full(np.shape(p)[:-1], np.inf))
            continue
        nrm = nrm / ln
        s = 1.0 if np.dot(nrm, cen) >= 0 else -1.0
        out.append(s * np.arcsin(np.clip(np.tensordot(p, nrm, axes=([-1], [0])), -1, 1)))
    return np.stack(out, axis=0)


def contains(corners, p, tol=1e-9):
    return signed_edge_distances(corners, p).min(axis=0) >= -tol


def triangle_area(a, b, c):
    """spherical triangle area by the Van Oosterom-Strackee formula (robust for tiny triangles)"""
    num = np.abs(np.dot(a, np.cross(b, c)))
    den = 1.0 + np.dot(a, b) + np.dot(b, c) + np.dot(c, a)
    return 2.0 * np.arctan2(num, den)


def tile_area(corners, inc):
    ul, ur, lr, ll = corners
    if inc:
        return triangle_area(ul, ur, ll) + triangle_area(ur, lr, ll)
    return triangle_area(ul, ur, lr) + triangle_area(ul, ll, lr)


def corners_to_xyz(tile_corners_lonlat):
    """toasty Tile.corners (4 x (lon,lat)) -> (4,3) unit vectors"""
    c = np.array([[float(p[0]), float(p[1])] for p in tile_corners_lonlat])
    return xyz(c[:, 0], c[:, 1])
