"""Statement-boundary delay injection (sys.monitoring LINE events, Python 3.12) and virtual time for lock time-outs.

A process can be descheduled between any two statements.  `install()` makes that happen, at random, between statements
of selected toasty source files, in the installing process and in every process forked from it afterwards.  Nothing in
/repo is edited and no third-party code (filelock, multiprocessing) is delayed: only the code whose property is being
decided gets hostile scheduling, so a violation seen under it is a schedule the real code can have.

`dilate_clocks()` makes time.perf_counter / time.monotonic run faster, so that a 50 ms pause inside a critical section
is "minutes" on the clock that lock time-outs read (time.time is left alone: filelock compares it with file mtimes).
"""
import math
import os
import random
import sys
import time

TOOL = 3
_S = dict(on=False, files=(), p=0.0, lo=0.002, hi=0.12, budget=3.0, hot=4000, seed=0, pid=None, rng=None, spent=0.0, n=0,
          counts={}, long_p=0.0, long=(0.0, 0.0))
_real = {}


def _rng():
    if _S["pid"] != os.getpid():
        _S["pid"] = os.getpid()
        _S["rng"] = random.Random("%s/sched/%s" % (_S["seed"], os.getpid()))
        _S["spent"] = 0.0
        _S["n"] = 0
    return _S["rng"]


_FP = []  # armed failpoints: dicts(file, func, exc, skip, count, fired, pid_only)


def failpoint(file, func, exc, skip=0, count=1, when=None, on_fire=None):
    """source-free failpoint: the `count` calls after the first `skip` calls of function `func` in toasty source file `file`
    raise `exc` (an exception instance or a callable returning one) at their first statement - an I/O error inside toasty's
    own read / write path (optionally only when `when(locals_of_the_call)` is true), without editing /repo and without replacing any attribute a changed implementation might bypass.
    Inherited by forked processes (each counts for itself). Returns the record; record['fired'] counts injections in THIS
    process."""
    rec = dict(file=file, func=func, exc=exc, skip=skip, count=count, fired=0, seen=0, lines={}, when=when, on_fire=on_fire)
    _FP.append(rec)
    _ensure_monitoring()
    return rec


def clear_failpoints():
    del _FP[:]


def _ensure_monitoring():
    mon = sys.monitoring
    if mon.get_tool(TOOL) is None:
        mon.use_tool_id(TOOL, "verif-sched")
    mon.register_callback(TOOL, mon.events.LINE, _on_line)
    mon.set_events(TOOL, mon.events.LINE)
    mon.restart_events()


def _check_failpoints(code, line):
    for rec in _FP:
        if code.co_name == rec["func"] and code.co_filename.endswith("/toasty/" + rec["file"]):
            first = rec["lines"].setdefault(code, line)  # the first statement seen for this code object = function entry
            if line != first:
                continue
            if rec["when"] is not None and not rec["when"](sys._getframe(2).f_locals):
                continue  # `when` sees the local variables (arguments) of the call about to fail
            rec["seen"] += 1
            if rec["seen"] > rec["skip"] and rec["fired"] < rec["count"]:
                rec["fired"] += 1
                if rec["on_fire"] is not None:
                    rec["on_fire"]()
                e = rec["exc"]
                raise (e() if callable(e) and not isinstance(e, BaseException) else e)


def _on_line(code, line):
    mon = sys.monitoring
    fn = code.co_filename
    if _FP and "/toasty/" in fn:
        _check_failpoints(code, line)
    if not _S["on"]:
        return None if (_FP and "/toasty/" in fn) else mon.DISABLE
    if not fn.endswith(_S["files"]) or "/toasty/" not in fn:
        return None if (_FP and "/toasty/" in fn) else mon.DISABLE  # armed failpoints need every toasty statement to stay watched
    c = _S["counts"].get(code, 0) + 1
    _S["counts"][code] = c
    if c > _S["hot"]:
        return None if _FP else mon.DISABLE  # a hot loop: stop watching this statement
    r = _rng()
    if _S["spent"] >= _S["budget"]:
        return None
    x = r.random()
    if x < _S["p"]:
        if _S["long_p"] and r.random() < _S["long_p"]:
            d = r.uniform(*_S["long"])
        else:
            d = math.exp(r.uniform(math.log(_S["lo"]), math.log(_S["hi"])))
        _S["spent"] += d
        _S["n"] += 1
        cb = _S.get("on_inject")
        if cb is not None:
            cb(code.co_name, line, d)
        _sleep(d)
    return None


_sleep = time.sleep


def install(seed, p=0.04, files=("pyramid.py", "par_util.py", "multi_tan.py", "multi_wcs.py"), lo=0.002, hi=0.12, budget=3.0, hot=4000,
            long_p=0.0, long=(0.0, 0.0), on_inject=None):
    """start injecting; inherited across fork (state is re-seeded per process)"""
    mon = sys.monitoring
    _S.update(on=True, files=tuple(files), p=p, lo=lo, hi=hi, budget=budget, hot=hot, seed=seed, pid=None, counts={}, long_p=long_p, long=long, on_inject=on_inject)
    if mon.get_tool(TOOL) is None:
        mon.use_tool_id(TOOL, "verif-sched")
    mon.register_callback(TOOL, mon.events.LINE, _on_line)
    mon.set_events(TOOL, mon.events.LINE)
    mon.restart_events()


def uninstall():
    mon = sys.monitoring
    _S["on"] = False
    del _FP[:]
    if mon.get_tool(TOOL) is not None:
        mon.set_events(TOOL, 0)
        mon.register_callback(TOOL, mon.events.LINE, None)
        mon.free_tool_id(TOOL)


def stats():
    return dict(injected=_S["n"], injected_seconds=round(_S["spent"], 3))


def dilate_clocks(factor, names=("perf_counter", "monotonic")):
    for name in names:
        if name in _real:
            continue
        real = getattr(time, name)
        _real[name] = real
        t0 = real()
        setattr(time, name, (lambda real=real, t0=t0: t0 + (real() - t0) * factor))


def undilate_clocks():
    for name, real in list(_real.items()):
        setattr(time, name, real)
        del _real[name]
