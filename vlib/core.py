"""Driver for the runtime-monitoring checks.

A check module (checks/cNN.py) provides

    PROPERTY = "C01"; LEVEL = "exploration" | "fault_enumeration"
    RULE = "how cases are generated and what makes one non-trivial"
    ASSUMPTIONS = [...]
    def cases(tier, seed) -> list of JSON-able dicts (case specs)
    def run_case(spec, workdir) -> dict with keys
         status:  "held" | "violation" | "inconclusive"
         key:     mechanism key of a violation (stable, never a hash / random value)
         detail:  human-readable explanation (violation / inconclusive)
         nontrivial: bool, sig: str (identity of the case for distinct counting)
         counters: {name: int}   (summed by the driver)
         sets: {name: [hashable...]} (unioned by the driver; sizes are reported)
         sample: optional JSON-able excerpt that goes into evidence samples
         witness_files: optional {name: path} copied into the replay directory
    def finish(agg, tier) -> optional; may return {"inconclusive": reason} when the
         deciding monitors were not reached, and extra coverage keys under "coverage".

The driver runs the cases in persistent worker subprocesses (never multiprocessing.Pool),
applies the known-findings file, writes evidence/<id>.json and replays/<id>/..., and prints the
VIOLATION / KNOWN-FINDING / INCONCLUSIVE lines.
"""
import hashlib
import importlib
import json
import os
import queue
import random
import shutil
import signal
import subprocess
import sys
import tempfile
import threading
import time

VERIF = os.path.dirname(os.path.dirname(os.path.abspath(__file__)))
PY = "/venv/bin/python"
NCPU = os.cpu_count() or 4


def repo_root():
    return os.environ.get("VERIF_REPO") or "/repo"


def load_check(cid):
    return importlib.import_module("checks." + cid.lower())


def stable_hash(obj):
    return hashlib.sha1(json.dumps(obj, sort_keys=True, default=str).encode()).hexdigest()[:16]


def jdefault(o):
    try:
        import numpy as np

        if isinstance(o, np.generic):
            return o.item()
        if isinstance(o, np.ndarray):
            return o.tolist()
    except Exception:
        pass
    if isinstance(o, (set, frozenset)):
        return sorted(o, key=str)
    if isinstance(o, tuple):
        return list(o)
    return str(o)


def jdump(o):
    return json.dumps(o, default=jdefault)


# --------------------------------------------------------------------------------------------
# worker side


def classify_exception(e, rr):
    """An exception that escaped run_case: if the innermost frame that belongs to either toasty or /verif is a
    toasty frame, the real code raised on an input the check considers legitimate -> violation (keyed by exception
    type and function, so that it can be listed as a known finding); otherwise it is a harness error -> inconclusive."""
    import traceback

    tb = traceback.extract_tb(e.__traceback__)
    troot = os.path.realpath(os.path.join(rr, "toasty")) + os.sep
    vroot = os.path.realpath(VERIF) + os.sep
    who = None
    for fr in reversed(tb):
        fn = os.path.realpath(fr.filename)
        if fn.startswith(troot):
            who = ("toasty", os.path.basename(fn), fr.name, fr.lineno)
            break
        if fn.startswith(vroot):
            who = ("verif", os.path.basename(fn), fr.name, fr.lineno)
            break
    text = "%r\n%s" % (e, "".join(traceback.format_exception(type(e), e, e.__traceback__))[-1800:])
    if who and who[0] == "toasty":
        return dict(status="violation", key="toasty-exception:%s:%s.%s" % (type(e).__name__, who[1], who[2]), detail=text)
    return dict(status="inconclusive", detail="harness error: " + text)


def worker_main(cid, workdir):
    """Read case specs (one JSON per line) on stdin, write results on the original stdout."""
    res_fd = os.dup(1)
    logf = os.open(os.path.join(workdir, "worker-%d.log" % os.getpid()), os.O_WRONLY | os.O_CREAT | os.O_APPEND)
    os.dup2(logf, 1)
    os.dup2(logf, 2)
    sys.stdout = os.fdopen(1, "w", buffering=1, closefd=False)
    sys.stderr = os.fdopen(2, "w", buffering=1, closefd=False)
    import warnings

    warnings.simplefilter("ignore")
    rr = repo_root()
    if rr != "/repo":
        sys.path.insert(0, rr)
    mod = load_check(cid)
    import toasty

    troot = os.path.dirname(os.path.dirname(os.path.abspath(toasty.__file__)))
    for line in sys.stdin:
        line = line.strip()
        if not line:
            continue
        spec = json.loads(line)
        cdir = tempfile.mkdtemp(prefix="case-", dir=workdir)
        t0 = time.time()
        try:
            if os.path.realpath(troot) != os.path.realpath(rr):
                res = dict(status="inconclusive", detail="toasty imported from %s, expected %s" % (troot, rr))
            else:
                res = mod.run_case(spec, cdir)
        except BaseException as e:
            res = classify_exception(e, rr)
        res.setdefault("status", "held")
        res["wall"] = round(time.time() - t0, 3)
        res["_cdir"] = cdir
        if res["status"] != "violation":
            shutil.rmtree(cdir, ignore_errors=True)
        os.write(res_fd, (jdump(res) + "\n").encode())


# --------------------------------------------------------------------------------------------
# driver side


class Worker:
    def __init__(self, cid, workdir, env):
        self.p = subprocess.Popen(
            [PY, os.path.join(VERIF, "vcheck"), cid, "--worker", workdir],
            stdin=subprocess.PIPE,
            stdout=subprocess.PIPE,
            env=env,
            cwd=VERIF,
            start_new_session=True,
        )

    def run(self, spec, timeout):
        try:
            self.p.stdin.write((jdump(spec) + "\n").encode())
            self.p.stdin.flush()
        except (BrokenPipeError, OSError):
            return None
        out = {}

        def rd():
            out["line"] = self.p.stdout.readline()

        t = threading.Thread(target=rd, daemon=True)
        t.start()
        t.join(timeout)
        if t.is_alive() or not out.get("line"):
            return None
        try:
            return json.loads(out["line"])
        except ValueError:
            return None

    def kill(self):
        try:
            os.killpg(self.p.pid, signal.SIGKILL)
        except (ProcessLookupError, PermissionError):
            pass
        try:
            self.p.wait(5)
        except Exception:
            pass

    def close(self):
        try:
            self.p.stdin.close()
        except Exception:
            pass
        try:
            self.p.wait(10)
        except Exception:
            self.kill()


def run_cases(cid, specs, workdir, nworkers, case_timeout, progress=True):
    env = dict(os.environ)
    env["PYTHONPYCACHEPREFIX"] = os.path.join(workdir, "pyc")
    env["PYTHONHASHSEED"] = "0"
    env["PYTHONPATH"] = VERIF + (os.pathsep + env["PYTHONPATH"] if env.get("PYTHONPATH") else "")
    if repo_root() != "/repo":
        env["PYTHONPATH"] = repo_root() + os.pathsep + env["PYTHONPATH"]
    env.setdefault("OMP_NUM_THREADS", "1")
    env.setdefault("OPENBLAS_NUM_THREADS", "1")
    env.setdefault("MKL_NUM_THREADS", "1")
    q = queue.Queue()
    for i, s in enumerate(specs):
        q.put((i, s))
    results = [None] * len(specs)
    lock = threading.Lock()
    done = [0]
    t_start = time.time()

    def loop():
        w = None
        while True:
            try:
                i, s = q.get_nowait()
            except queue.Empty:
                break
            if s.get("_env"):
                # a case that asks for its own interpreter settings (e.g. PYTHONOPTIMIZE=1, a locale, a umask-like variable)
                # runs in a fresh worker process of its own
                w1 = Worker(cid, workdir, dict(env, **{k: str(v) for k, v in s["_env"].items()}))
                r = w1.run(s, s.get("_timeout", case_timeout))
                if r is None:
                    w1.kill()
                    r = dict(status="inconclusive", detail="case watchdog (%ss) or worker died" % s.get("_timeout", case_timeout))
                else:
                    w1.close()
                results[i] = r
                with lock:
                    done[0] += 1
                continue
            if w is None:
                w = Worker(cid, workdir, env)
            r = w.run(s, s.get("_timeout", case_timeout))
            if r is None:
                w.kill()
                w = None
                r = dict(status="inconclusive", detail="case watchdog (%ss) or worker died" % s.get("_timeout", case_timeout))
            results[i] = r
            with lock:
                done[0] += 1
                if progress and (done[0] % max(1, len(specs) // 10) == 0):
                    print("  .. %d/%d cases, %.0fs" % (done[0], len(specs), time.time() - t_start), flush=True)
        if w is not None:
            w.close()

    ths = [threading.Thread(target=loop, daemon=True) for _ in range(max(1, min(nworkers, len(specs))))]
    for t in ths:
        t.start()
    for t in ths:
        t.join()
    return results


def load_known():
    p = os.path.join(VERIF, "known_findings.json")
    if not os.path.exists(p):
        return []
    with open(p) as f:
        return json.load(f).get("findings", [])


def main(argv):
    import argparse

    ap = argparse.ArgumentParser()
    ap.add_argument("cid")
    ap.add_argument("--tier", default=None)
    ap.add_argument("--replay", default=None)
    ap.add_argument("--worker", default=None)
    ap.add_argument("--jobs", type=int, default=None)
    ap.add_argument("--max-cases", type=int, default=None)
    a = ap.parse_args(argv)
    cid = a.cid.upper()
    if a.worker:
        worker_main(cid, a.worker)
        return 0
    tier = a.tier or os.environ.get("VERIF_TIER") or "quick"
    if tier not in ("quick", "thorough"):
        tier = "quick"
    try:
        seed = int(os.environ.get("VERIF_SEED", "0"))
    except ValueError:
        seed = 0
    sys.path.insert(0, VERIF)
    mod = load_check(cid)
    t0 = time.time()
    base = os.environ.get("TMPDIR") or "/tmp"
    workdir = tempfile.mkdtemp(prefix="vcheck-%s-" % cid, dir=base)
    rc = 2
    try:
        rc = drive(mod, cid, tier, seed, a, workdir, t0)
    finally:
        shutil.rmtree(workdir, ignore_errors=True)
    return rc


def drive(mod, cid, tier, seed, a, workdir, t0):
    replay_mode = a.replay is not None
    if replay_mode:
        with open(os.path.join(a.replay, "case.json")) as f:
            spec = json.load(f)
        reps = getattr(mod, "REPLAY_REPEATS", 1)
        specs = [dict(spec) for _ in range(reps)]
    else:
        specs = mod.cases(tier, seed)
        # interpreter configurations: a check that sets OPTIMIZED_SAMPLE = (n_quick, n_thorough) gets that many of its own cases
        # (evenly spaced over the list) repeated in an interpreter started with PYTHONOPTIMIZE=1 (`python -O`: assert statements
        # and `if __debug__:` blocks of the library vanish)
        n_opt = getattr(mod, "OPTIMIZED_SAMPLE", (0, 0))[0 if tier == "quick" else 1]
        plain = [sp for sp in specs if not sp.get("_env") and sp.get("_timeout", 0) <= 300]
        if n_opt and plain:
            step = max(1, len(plain) // n_opt)
            specs = specs + [dict(sp, _env={"PYTHONOPTIMIZE": "1"}) for sp in plain[(seed % step)::step][:n_opt]]
        if a.max_cases:
            specs = specs[: a.max_cases]
    pre = None
    if hasattr(mod, "precheck"):
        pre = mod.precheck()
    nworkers = a.jobs or getattr(mod, "JOBS", NCPU)
    case_timeout = getattr(mod, "CASE_TIMEOUT", 120)
    print("%s tier=%s seed=%d cases=%d workers=%d repo=%s" % (cid, tier, seed, len(specs), nworkers, repo_root()), flush=True)
    results = [] if pre else run_cases(cid, specs, workdir, nworkers, case_timeout)

    known = [k for k in load_known() if k.get("property") == cid and k.get("status") == "known"]
    known_keys = {k["key"]: k for k in known}
    counters = {}
    sets = {}
    sigs = set()
    samples = []
    violations = []
    known_hits = {}
    inconcl = []
    nheld = 0
    for spec, r in zip(specs, results):
        for k, v in (r.get("counters") or {}).items():
            if k.startswith("max_"):
                counters[k] = max(counters.get(k, 0), v)
            else:
                counters[k] = counters.get(k, 0) + v
        for k, v in (r.get("sets") or {}).items():
            sets.setdefault(k, set()).update(json.dumps(x, sort_keys=True, default=str) for x in v)
        st = r["status"]
        if st == "held":
            nheld += 1
            if r.get("sigs"):
                sigs.update(r["sigs"])
            elif r.get("nontrivial", True):
                sigs.add(r.get("sig") or stable_hash({k: v for k, v in spec.items() if not k.startswith("_")}))
            if r.get("sample") is not None and len(samples) < 6:
                samples.append(r["sample"])
        elif st == "violation":
            key = r.get("key", "unclassified")
            if key in known_keys:
                known_hits.setdefault(key, []).append((spec, r))
            else:
                violations.append((spec, r))
        else:
            inconcl.append((spec, r))
    if not samples:
        samples = [{k: v for k, v in s.items() if not k.startswith("_")} for s in specs[:3]]

    agg = dict(counters=counters, sets={k: len(v) for k, v in sets.items()}, setvals=sets, n=len(specs), held=nheld)
    fin = {}
    if hasattr(mod, "finish") and not pre and not replay_mode:
        fin = mod.finish(agg, tier) or {}

    # replay directories for violations
    replays = []
    if not replay_mode:
        rdir = os.path.join(os.environ.get("VERIF_REPLAY_DIR") or os.path.join(VERIF, "replays"), cid)
        for spec, r in violations[:10]:
            d = os.path.join(rdir, stable_hash(spec))
            shutil.rmtree(d, ignore_errors=True)
            os.makedirs(d, exist_ok=True)
            with open(os.path.join(d, "case.json"), "w") as f:
                json.dump(spec, f, indent=1, default=jdefault)
            with open(os.path.join(d, "explanation.json"), "w") as f:
                json.dump({k: v for k, v in r.items() if k not in ("_cdir",)}, f, indent=1, default=jdefault)
            for name, p in (r.get("witness_files") or {}).items():
                try:
                    if os.path.isdir(p):
                        shutil.copytree(p, os.path.join(d, name))
                    else:
                        shutil.copy(p, os.path.join(d, name))
                except Exception:
                    pass
            replays.append(d)
    for spec, r in violations + [x for v in known_hits.values() for x in v]:
        if r.get("_cdir"):
            shutil.rmtree(r["_cdir"], ignore_errors=True)

    inconclusive_reason = None
    if pre:
        inconclusive_reason = pre
    elif fin.get("inconclusive"):
        inconclusive_reason = fin["inconclusive"]
    elif len(inconcl) > max(2, len(specs) // 20):
        inconclusive_reason = "%d of %d cases inconclusive (first: %s)" % (len(inconcl), len(specs), (inconcl[0][1].get("detail") or "")[:300])
    elif nheld == 0 and not violations and not known_hits:
        inconclusive_reason = "no case reached the deciding monitor"

    cov = dict(
        evaluations=len(specs),
        distinct_nontrivial=len(sigs),
        rule=getattr(mod, "RULE", ""),
        samples=samples,
        held=nheld,
        inconclusive_cases=len(inconcl),
        counters=counters,
        distinct=agg["sets"],
        workers=nworkers,
        repo=repo_root(),
    )
    if inconcl:
        cov["inconclusive_examples"] = [(r.get("detail") or "")[:300] for _, r in inconcl[:3]]
    cov.update(fin.get("coverage") or {})
    if getattr(mod, "EXHAUSTIVE", None) and tier in mod.EXHAUSTIVE:
        cov["exhaustive"] = True
        cov["exhaustive_scope"] = mod.EXHAUSTIVE[tier]
    if known_hits:
        cov["known_findings_observed"] = {k: len(v) for k, v in known_hits.items()}
    if violations:
        cov["violation_keys"] = sorted({r.get("key", "unclassified") for _, r in violations})
        cov["violation_examples"] = [dict(case={k: v for k, v in s.items() if not k.startswith("_")}, key=r.get("key"), detail=(r.get("detail") or "")[:600]) for s, r in violations[:3]]
    ev = dict(
        property_id=cid,
        tier=tier,
        seed=seed,
        level=getattr(mod, "LEVEL", "exploration"),
        coverage=cov,
        assumptions=list(getattr(mod, "ASSUMPTIONS", [])),
        wall_s=round(time.time() - t0, 2),
        violations=len(violations),
        verdict="violation" if violations else ("inconclusive" if inconclusive_reason else "held"),
    )
    if not replay_mode:
        edir = os.environ.get("VERIF_EVIDENCE_DIR") or os.path.join(VERIF, "evidence")
        os.makedirs(edir, exist_ok=True)
        tmp = os.path.join(edir, cid + ".json.tmp")
        with open(tmp, "w") as f:
            json.dump(ev, f, indent=1, default=jdefault)
        os.replace(tmp, os.path.join(edir, cid + ".json"))

    for key, hits in known_hits.items():
        print("KNOWN-FINDING: property=%s %s (%d case(s) this run; %s)" % (cid, key, len(hits), known_keys[key].get("what", "")))
    print(
        "%s: %d cases, %d held, %d distinct non-trivial, %d inconclusive, %d violation(s), %.1fs"
        % (cid, len(specs), nheld, len(sigs), len(inconcl), len(violations), time.time() - t0)
    )
    for k in sorted(counters):
        print("   %-32s %d" % (k, counters[k]))
    for k in sorted(agg["sets"]):
        print("   distinct %-23s %d" % (k, agg["sets"][k]))
    if violations:
        for (spec, r), d in zip(violations, replays + [None] * len(violations)):
            print("   violation key=%s: %s" % (r.get("key"), (r.get("detail") or "")[:400].replace("\n", " | ")))
            if d is None:
                break
        if replay_mode:
            print("VIOLATION property=%s replay=%s (reproduced %d/%d)" % (cid, a.replay, len(violations), len(specs)))
        else:
            print("VIOLATION property=%s replay=%s" % (cid, replays[0] if replays else "none"))
        return 1
    if replay_mode and not pre and len(inconcl) < len(specs):
        print("REPLAY property=%s case not reproduced (0/%d runs violated)" % (cid, len(specs)))
        return 0
    if inconclusive_reason:
        print("INCONCLUSIVE property=%s reason=%s" % (cid, inconclusive_reason))
        return 2
    return 0
