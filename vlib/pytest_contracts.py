"""pytest plugin: run the repository's own tests with the mask-semantics contracts installed.
Load with `-p vlib.pytest_contracts` and PYTHONPATH=/verif; log path from VERIF_CONTRACT_LOG."""
import os


def pytest_configure(config):
    from vlib import contracts

    contracts.install(os.environ.get("VERIF_CONTRACT_LOG", "/dev/null"))
