"""Independent model of study tiling geometry (from the statement, not from toasty)."""


def p2n(w, h):
    p = 256
    while p < max(w, h):
        p *= 2
    return p


def geometry(w, h):
    p = p2n(w, h)
    levels = 0
    while 256 * (1 << levels) < p:
        levels += 1
    return dict(p2n=p, levels=levels, gx0=(p - w) // 2, gy0=(p - h) // 2)


def tiles_for_rect(gx0, gy0, w, h):
    """set of (tx, ty) overlapped by the global rectangle"""
    return {(tx, ty) for ty in range(gy0 // 256, (gy0 + h - 1) // 256 + 1) for tx in range(gx0 // 256, (gx0 + w - 1) // 256 + 1)}


def pixel_slot(g, ix, iy):
    gx, gy = ix + g["gx0"], iy + g["gy0"]
    return gx // 256, gy // 256, gx % 256, gy % 256
